"""C11 bounded driver: EM refinement and epsilon thresholding vs an independent dense float64 EM (BOUNDED)."""
import random

import numpy as np

from .driver import Recorder
from . import cooc_common as CC

EXC = (IndexError, KeyError, UnboundLocalError, ZeroDivisionError, TypeError)


def check(R, X, cfg, timed=False):
    case = dict(X=X, cfg=cfg, timed=timed)
    key = ("em", repr(X), repr(cfg))
    try:
        M_ref, labels, blocks, M0 = CC.reference_matrix(X, cfg, timed)
    except ValueError:
        return
    if not labels:
        return
    try:
        M_api, v = CC.api_matrix(X, cfg, timed)
    except ValueError:
        return
    except EXC as ex:
        R.case(key)
        R.fail("em/%s" % type(ex).__name__, "fit_transform raises %s: %s" % (type(ex).__name__, str(ex)[:100]), **case)
        return
    R.case(key, nontrivial=bool(M_ref.any()), sample=dict(case, matrix=np.round(M_api, 4).tolist()) if M_ref.any() else None)
    d = CC.compare(M_api, v, M_ref, labels, blocks)
    if d:
        R.fail("em/procedure", "n_iter=%r epsilon=%r: %s" % (cfg.get("n_iter"), cfg.get("epsilon"), d), **case)
        return
    # derived facts
    if (cfg.get("n_iter", 0) > 0 or cfg.get("epsilon", 0) > 0):
        if M_api.min() < -1e-9 or M_api.max() > 1 + 1e-6:
            R.fail("em/range", "entries outside [0, 1]: min %r max %r" % (M_api.min(), M_api.max()), **case)
        cs = M_api.sum(axis=0)
        if (cs > 1 + 1e-5).any():
            R.fail("em/column-sum", "a column sums to %r > 1" % cs.max(), **case)
        if cfg.get("epsilon", 0) == 0 and ((cs > 0) & (np.abs(cs - 1) > 1e-5)).any():
            R.fail("em/column-sum-1", "a non-empty column does not sum to 1 with epsilon=0: %r" % cs, **case)
        if ((M_api != 0) & (M0 == 0)).any():
            R.fail("em/support-grows", "support grew beyond that of the n_iter=0 matrix", **case)


def run(tier, seed):
    R = Recorder("corpora of 1..3 sequences of length <= 6 over 3-4 tokens x n_iter {0,1,2,3} x epsilon {0, 0.05, 0.12, 0.3, 1} x sampled window/kernel settings x "
                 "n_threads {1,2}: API matrix vs dense float64 EM written from the property statement; entries in [0,1], column sums, support. non-trivial = non-zero reference")
    rng = random.Random(seed)
    cfgs = [c for c in CC.CONFIGS if not isinstance(c["window_orientations"], list) or True]
    for _ in range(70 if tier == "quick" else 900):
        X = [[rng.choice("abcd"[:rng.choice([3, 4])]) for _ in range(rng.randint(1, 6))] for _ in range(rng.randint(1, 3))]
        cfg = dict(rng.choice(cfgs))
        cfg.update(n_iter=rng.choice([0, 1, 2, 3]), epsilon=rng.choice([0, 0, 0.05, 0.12, 0.3, 1]))
        if rng.random() < 0.3:
            cfg.update(n_threads=2)
        check(R, X, cfg)
    # the pruned-cell case: epsilon removes a cell that a later EM step looks up
    check(R, [["a", "b", "a", "c", "a", "b", "b", "c", "c", "a"]], dict(window_radii=2, window_orientations="after", n_iter=2, epsilon=0.12, normalize_windows=True))
    check(R, [["a", "b", "c", "d", "a", "b", "a", "a", "d"]], dict(window_radii=3, window_orientations="directional", n_iter=3, epsilon=0.2, normalize_windows=False))
    return R.result()


def replay(case):
    R = Recorder("replay")
    check(R, case["X"], case["cfg"], bool(case.get("timed")))
    return not any(f["id"] == case["id"] for f in R.failures)
