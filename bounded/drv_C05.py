"""C05 bounded driver: the learned vocabulary is exactly the tokens meeting every constraint (BOUNDED)."""
import itertools
import random
import re

import numpy as np

from .driver import Recorder
from vectorizers.preprocessing import preprocess_token_sequences
import vectorizers as V


def reference_vocab(X, c):
    counts, docs = {}, {}
    for seq in X:
        for t in seq:
            counts[t] = counts.get(t, 0) + 1
        for t in set(seq):
            docs[t] = docs.get(t, 0) + 1
    n, nd = sum(counts.values()), len(X)
    keep = []
    for t in sorted(counts):
        cnt, dc = counts[t], docs[t]
        ok = True
        if c.get("min_occurrences") is not None and cnt < c["min_occurrences"]:
            ok = False
        if c.get("max_occurrences") is not None and cnt > c["max_occurrences"]:
            ok = False
        if c.get("min_frequency") is not None and cnt / n < c["min_frequency"] - 1e-7:
            ok = False
        if c.get("max_frequency") is not None and cnt / n > c["max_frequency"] + 1e-7:
            ok = False
        if c.get("min_document_occurrences") is not None and dc < c["min_document_occurrences"]:
            ok = False
        if c.get("max_document_occurrences") is not None and dc > c["max_document_occurrences"]:
            ok = False
        if c.get("min_document_frequency") is not None and dc / nd < c["min_document_frequency"] - 1e-7:
            ok = False
        if c.get("max_document_frequency") is not None and dc / nd > c["max_document_frequency"] + 1e-7:
            ok = False
        if c.get("ignored_tokens") and t in c["ignored_tokens"]:
            ok = False
        if c.get("excluded_token_regex") and re.fullmatch(c["excluded_token_regex"], t):
            ok = False
        if ok:
            keep.append(t)
    return keep, counts


def check(R, X, c, tag="grid"):
    case = dict(X=X, constraints={k: (sorted(v) if isinstance(v, set) else v) for k, v in c.items()})
    key = (tag, repr(X), repr(sorted(case["constraints"].items())))
    keep, counts = reference_vocab(X, {k: v for k, v in c.items() if k != "max_unique_tokens"})
    try:
        _, d, inv, freq = preprocess_token_sequences([list(s) for s in X], None, **c)
    except AssertionError:
        return
    except (IndexError, KeyError, UnboundLocalError, ZeroDivisionError) as ex:
        R.case(key)
        R.fail("%s/%s" % (tag, type(ex).__name__), "preprocess_token_sequences raises %s: %s" % (type(ex).__name__, str(ex)[:100]), **case)
        return
    got = sorted(d, key=lambda t: d[t])
    R.case(key, nontrivial=len(keep) < len(counts), sample=dict(case, vocabulary=got) if len(keep) < len(counts) else None)
    k = c.get("max_unique_tokens")
    if k is None:
        if got != keep:
            R.fail("%s/vocabulary" % tag, "vocabulary %r, the tokens meeting every constraint are %r" % (got, keep), **case)
            return
    else:
        if not set(got) <= set(keep) or len(got) > k:
            R.fail("%s/topk-set" % tag, "vocabulary %r is not a subset of size <= %d of the admissible tokens %r" % (got, k, keep), **case)
            return
        dropped = [t for t in keep if t not in got]
        if got and dropped and min(counts[t] for t in got) < max(counts[t] for t in dropped):
            R.fail("%s/topk-order" % tag, "kept token less frequent than a dropped one: kept %r dropped %r" % (got, dropped), **case)
            return
        if len(keep) <= k and got != keep:
            R.fail("%s/topk-unneeded" % tag, "max_unique_tokens=%d dropped tokens although only %d are admissible" % (k, len(keep)), **case)
            return
        if got != sorted(got):
            R.fail("%s/order" % tag, "indices not in sorted token order: %r" % got, **case)
    if [d[t] for t in got] != list(range(len(got))):
        R.fail("%s/indices" % tag, "indices are not 0..n-1 in sorted token order: %r" % d, **case)


def run(tier, seed):
    R = Recorder("(a) exhaustive 'count equal to the bound': every (count, total) with 1 <= count <= total <= N through preprocess_token_sequences for "
                 "min/max occurrences and min/max document occurrences (N=%s); (b) seeded corpora over 5 tokens x combinations of all constraint kinds, "
                 "shuffled documents and tokens (order independence); (c) supplied dictionary used as given. non-trivial = at least one token pruned")
    rng = random.Random(seed)
    N = 120 if tier == "quick" else 700
    R.rule = R.rule % N
    R.scope = dict(boundary_N=N)
    # (a) boundary, exhaustive
    for n in range(1, N + 1):
        cs = range(1, n + 1) if (tier != "quick" or n <= 40) else sorted(set([1, 2, 3, n // 3, n // 2, n - 1, n] + [rng.randint(1, n) for _ in range(4)]) - {0})
        for c in cs:
            X = [["x"] * c + ["y"] * (n - c)]
            for cons in (dict(min_occurrences=c), dict(max_occurrences=c)):
                _, d, _, _ = preprocess_token_sequences(X, None, **cons)
                R.case(("boundary", c, n, tuple(cons)), nontrivial=n > c)
                if "x" not in d:
                    R.fail("boundary/occurrences", "token occurring exactly the bound (%d of %d) was pruned with %r" % (c, n, cons), count=c, total=n, constraints=cons)
            if n <= (30 if tier == "quick" else 80):
                Xd = [["x"]] * c + [["y"]] * (n - c)
                for cons in (dict(min_document_occurrences=c), dict(max_document_occurrences=c)):
                    _, d, _, _ = preprocess_token_sequences(Xd, None, **cons)
                    R.case(("boundary-doc", c, n, tuple(cons)), nontrivial=n > c)
                    if "x" not in d:
                        R.fail("boundary/document-occurrences", "token in exactly the bound (%d of %d) documents was pruned with %r" % (c, n, cons), count=c, total=n, constraints=cons)
    # (b) grid
    toks = ["ant", "bee", "cat", "dog", "a1"]
    ncorp = 40 if tier == "quick" else 400
    for _ in range(ncorp):
        X = [[rng.choice(toks[:rng.randint(2, 5)]) for _ in range(rng.randint(0, 6))] for _ in range(rng.randint(1, 5))]
        if not any(X):
            continue
        n = sum(len(s) for s in X)
        cons_pool = [dict(), dict(min_occurrences=2), dict(max_occurrences=2), dict(min_occurrences=2, max_occurrences=3), dict(min_frequency=0.2), dict(max_frequency=0.3),
                     dict(min_document_occurrences=2), dict(max_document_occurrences=1), dict(min_document_frequency=0.5), dict(max_document_frequency=0.5),
                     dict(ignored_tokens={"bee"}), dict(excluded_token_regex="a.*"), dict(excluded_token_regex="a"), dict(max_unique_tokens=2), dict(max_unique_tokens=1),
                     dict(min_occurrences=2, max_unique_tokens=2, ignored_tokens={"cat"}), dict(max_document_occurrences=2, excluded_token_regex=".*g")]
        for c in rng.sample(cons_pool, 6 if tier == "quick" else len(cons_pool)):
            check(R, X, c)
            # order independence
            Y = [list(s) for s in X]
            rng.shuffle(Y)
            for s in Y:
                rng.shuffle(s)
            try:
                d1 = preprocess_token_sequences([list(s) for s in X], None, **c)[1]
                d2 = preprocess_token_sequences(Y, None, **c)[1]
                if d1 != d2:
                    R.fail("grid/order-dependent", "dictionary depends on document/token order: %r vs %r" % (d1, d2), X=X, constraints={k: (sorted(v) if isinstance(v, set) else v) for k, v in c.items()})
            except AssertionError:
                pass
    # (c) supplied dictionary
    for masking in (None, "[M]"):
        supplied = {"bee": 0, "ant": 1, "zzz": 2}
        before = dict(supplied)
        _, d, _, _ = preprocess_token_sequences([["ant", "bee", "cat"], ["cat"]], supplied, masking=masking)
        R.case(("supplied", masking))
        want = dict(before)
        if masking:
            want[masking] = 3
        if d != want:
            R.fail("supplied/changed", "supplied token_dictionary not used as given: %r (expected %r)" % (d, want), masking=masking)
    return R.result()


def replay(case):
    if "count" in case:
        c, n, cons = case["count"], case["total"], case["constraints"]
        key = list(cons)[0]
        X = [["x"] * c + ["y"] * (n - c)] if "document" not in key else [["x"]] * c + [["y"]] * (n - c)
        return "x" in preprocess_token_sequences(X, None, **cons)[1]
    R = Recorder("replay")
    c = dict(case.get("constraints", {}))
    if "ignored_tokens" in c:
        c["ignored_tokens"] = set(c["ignored_tokens"])
    if "X" in case:
        check(R, case["X"], c)
    return not R.failures
