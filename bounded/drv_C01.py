"""C01 bounded driver: transform returns one row per item in the fitted column space, for unseen inputs too (BOUNDED)."""
import copy
import random

import numpy as np
import scipy.sparse as sp

from .driver import Recorder
from . import estimators as ES
import vectorizers as V

EXC = (IndexError, KeyError, ValueError, UnboundLocalError, ZeroDivisionError, TypeError, AssertionError)


def check_entry(R, e, rng):
    try:
        est = e.fit()
    except OverflowError:
        # numpy int32 scalar arithmetic in murmurhash under NUMBA_DISABLE_JIT (NEP 50): an interpreter artefact, see C10 known finding
        R.notes.append("%s skipped interpreted: OverflowError in murmurhash with an np.int32 seed" % e.name)
        return
    except EXC as ex:
        R.case((e.name, "fit"))
        R.fail("%s/fit-%s" % (e.name, type(ex).__name__), "fit raises %s: %s" % (type(ex).__name__, str(ex)[:100]), estimator=e.name)
        return
    width = e.width(est) if e.width else None
    for vname, X in e.variants:
        kw = ES.variant_kw(e, vname)
        key = (e.name, vname)
        try:
            out = e.transform(est, X, kw)
        except EXC as ex:
            R.case(key)
            R.fail("%s/%s-%s" % (e.name, vname, type(ex).__name__), "transform(%s inputs) raises %s: %s" % (vname, type(ex).__name__, str(ex)[:120]), estimator=e.name, variant=vname)
            continue
        n = ES.n_rows(X)
        rows = out.shape[0] if hasattr(out, "shape") else len(out)
        R.case(key, nontrivial=True, sample=dict(estimator=e.name, variant=vname, items=n, out_shape=list(out.shape) if hasattr(out, "shape") else [len(out)]))
        if rows != n:
            R.fail("%s/%s-rows" % (e.name, vname), "transform returned %d rows for %d items" % (rows, n), estimator=e.name, variant=vname)
            continue
        if width is not None and hasattr(out, "shape") and out.shape[1] != width:
            R.fail("%s/%s-width" % (e.name, vname), "transform returned %d columns, fitted width is %d" % (out.shape[1], width), estimator=e.name, variant=vname)
            continue
        # order: row k is the transform of item k alone (skipped where a 1-item call is not meaningful)
        if e.rowwise and n > 0:
            k = rng.randrange(n)
            try:
                kw1 = e.kw_slice(kw, [k], vname) if e.kw_slice else kw
                one = e.transform(est, ES.take(X, [k]), kw1)
                a = ES.take(out, [k]) if hasattr(out, "shape") else [out[k]]
                if not ES.rows_equal(a, one, e.exact, 1e-7):
                    R.fail("%s/%s-order" % (e.name, vname), "row %d of the batch differs from the transform of item %d alone" % (k, k), estimator=e.name, variant=vname, item=k)
            except EXC as ex:
                R.fail("%s/%s-single-%s" % (e.name, vname, type(ex).__name__), "transform of the single item %d raises %s: %s" % (k, type(ex).__name__, str(ex)[:100]),
                       estimator=e.name, variant=vname, item=k)
    # column dictionaries unchanged by transform
    return est


def check_cooc(R):
    X = [["a", "b", "a", "c"], ["b", "c", "c"], ["a"]]
    Xn = [["c", "z", "a", "a"], [], ["z"], ["b", "a", "b", "a", "b", "c", "c", "c", "a"]]
    cases = [
        ("TokenCooc", V.TokenCooccurrenceVectorizer(window_radii=2), X, Xn),
        ("TokenCoocMask", V.TokenCooccurrenceVectorizer(window_radii=2, min_occurrences=2, mask_string="[M]", nullify_mask=True), X, Xn),
        ("TokenCoocMulti", V.TokenCooccurrenceVectorizer(window_radii=[1, 2], window_orientations=["before", "directional"], kernel_functions=["flat", "flat"], window_functions=["fixed", "fixed"]), X, Xn),
        ("NgramCooc", V.NgramCooccurrenceVectorizer(ngram_size=2, window_radii=2), X, Xn),
        ("TimedCooc", V.TimedTokenCooccurrenceVectorizer(window_radii=2, kernel_args={"delta": 1.0}), [[(t, float(i)) for i, t in enumerate(s)] for s in X],
         [[(t, float(2 * i)) for i, t in enumerate(s)] for s in Xn]),
        ("MultiSetCooc", V.MultiSetCooccurrenceVectorizer(window_radii=1), [[["a", "b"], ["a"], ["c", "b"]], [["b"], ["c", "c"]]], [[["z", "a"], ["a"]], [["c"], [], ["b", "z"]]]),
    ]
    for name, est, Xt, Xnew in cases:
        try:
            est.fit(copy.deepcopy(Xt))
            cols = len(est.column_label_dictionary_)
            rows = est._n_rows
            before = dict(est.column_label_dictionary_)
            for vname, data in (("unseen", Xnew), ("train", Xt), ("empty-items", [[]] if name != "MultiSetCooc" else [[[]]])):
                M = est.transform(copy.deepcopy(data))
                R.case((name, vname), sample=dict(estimator=name, variant=vname, shape=list(M.shape)))
                if M.shape != (rows, cols):
                    R.fail("%s/%s-shape" % (name, vname), "transform shape %r, fitted (vocabulary x columns) is %r" % (M.shape, (rows, cols)), estimator=name, variant=vname)
            if est.column_label_dictionary_ != before:
                R.fail("%s/dictionary-changed" % name, "transform changed column_label_dictionary_", estimator=name)
        except EXC as ex:
            R.case((name, "exc"))
            R.fail("%s/%s" % (name, type(ex).__name__), "raises %s: %s" % (type(ex).__name__, str(ex)[:120]), estimator=name)


def check_edge_and_tree(R):
    edges = [("r1", "c1", 1.0), ("r2", "c2", 2.0), ("r3", "c3", 1.0), ("r1", "c1", 4.0)]
    try:
        ev = V.EdgeListVectorizer().fit(edges)
        shape = ev._train_matrix.shape
        for vname, data in (("one-edge", [("r1", "c1", 2.0)]), ("unseen-labels", [("zz", "c1", 1.0), ("r2", "yy", 1.0), ("r2", "c1", 3.0)]), ("train", edges)):
            M = ev.transform(data)
            R.case(("EdgeList", vname), sample=dict(estimator="EdgeList", variant=vname, shape=list(M.shape)))
            if M.shape != shape:
                R.fail("EdgeList/%s-shape" % vname, "transform shape %r, fitted shape %r" % (M.shape, shape), estimator="EdgeList", variant=vname)
            elif vname == "unseen-labels":
                want = np.zeros(shape)
                want[ev.row_label_dictionary_["r2"], ev.column_label_dictionary_["c1"]] = 3.0
                if not np.allclose(M.toarray(), want):
                    R.fail("EdgeList/unseen-values", "edges with unseen labels are not ignored / cells shifted", estimator="EdgeList", variant=vname)
    except EXC as ex:
        R.case(("EdgeList", "exc"))
        R.fail("EdgeList/%s" % type(ex).__name__, "raises %s: %s" % (type(ex).__name__, str(ex)[:120]), estimator="EdgeList")
    # supplied, non-contiguous label dictionaries: the fitted shape is max index + 1, not the number of labels
    try:
        ev = V.EdgeListVectorizer(row_label_dictionary={"r1": 0, "r2": 3}, column_label_dictionary={"c1": 2, "c2": 5}).fit(edges)
        shape = ev._train_matrix.shape
        for vname, data in (("one-edge", [("r1", "c1", 2.0)]), ("train", edges), ("high-index", [("r2", "c2", 1.0)])):
            M = ev.transform(data)
            R.case(("EdgeListSupplied", vname), sample=dict(estimator="EdgeList(supplied dictionaries)", variant=vname, shape=list(M.shape)))
            if M.shape != shape:
                R.fail("EdgeListSupplied/%s-shape" % vname, "transform shape %r, fitted shape %r (supplied non-contiguous dictionaries)" % (M.shape, shape), estimator="EdgeList", variant=vname)
    except EXC as ex:
        R.case(("EdgeListSupplied", "exc"))
        R.fail("EdgeListSupplied/%s" % type(ex).__name__, "raises %s: %s" % (type(ex).__name__, str(ex)[:120]), estimator="EdgeList")
    try:
        A = sp.csr_matrix(np.array([[0, 1, 1, 0], [0, 0, 0, 1], [0, 0, 0, 0], [0, 0, 0, 0]]))
        trees = [(A, np.array(["x", "y", "y", "z"])), (sp.csr_matrix(np.array([[0, 1], [0, 0]])), np.array(["z", "x"]))]
        tv = V.LabelledTreeCooccurrenceVectorizer(window_radius=2).fit(trees)
        n = len(tv.column_label_dictionary_)
        new = [(sp.csr_matrix(np.array([[0, 1, 0], [0, 0, 1], [0, 0, 0]])), np.array(["y", "q", "x"])), (sp.csr_matrix(np.zeros((1, 1))), np.array(["z"]))]
        for vname, data in (("unseen-labels", new), ("train", trees)):
            M = tv.transform(data)
            R.case(("Tree", vname), sample=dict(estimator="LabelledTree", variant=vname, shape=list(M.shape)))
            if M.shape[0] != len(tv.token_label_dictionary_) or M.shape[1] != n:
                R.fail("Tree/%s-shape" % vname, "transform shape %r, fitted %r" % (M.shape, (len(tv.token_label_dictionary_), n)), estimator="LabelledTree", variant=vname)
    except EXC as ex:
        R.case(("Tree", "exc"))
        R.fail("Tree/%s" % type(ex).__name__, "raises %s: %s" % (type(ex).__name__, str(ex)[:120]), estimator="LabelledTree")


def run(tier, seed):
    R = Recorder("every row-producing estimator of the catalogue (bounded/estimators.py, %d configurations) fitted on a small training set and "
                 "transformed on inputs with unseen tokens/characters/labels, empty items, longer and shorter items and the training set; "
                 "row count, width, per-item order; co-occurrence family, EdgeList and tree shapes. non-trivial = a transform call completed" % len(ES.catalogue()))
    rng = random.Random(seed)
    for e in ES.catalogue():
        check_entry(R, e, rng)
    check_cooc(R)
    check_edge_and_tree(R)
    return R.result()


def replay(case):
    R = Recorder("replay")
    rng = random.Random(0)
    for e in ES.catalogue():
        if e.name == case.get("estimator"):
            check_entry(R, e, rng)
    check_cooc(R)
    check_edge_and_tree(R)
    return not any(f["id"] == case["id"] for f in R.failures)
