"""C13 bounded driver: calls are free of side effects, repeatable, leave nothing behind (BOUNDED)."""
import copy
import os
import random
import shutil
import tempfile

import numpy as np
import scipy.sparse as sp

from .driver import Recorder
from . import estimators as ES
import vectorizers as V
from vectorizers.transformers import InformationWeightTransformer, RowDenoisingTransformer

EXC = (IndexError, KeyError, ValueError, UnboundLocalError, ZeroDivisionError, TypeError, AssertionError)


def snap(x):
    """Deep, comparable snapshot including sparse storage details (explicit zeros, index order)."""
    if sp.issparse(x):
        c = x.copy()
        if hasattr(c, "indptr"):
            return ("sparse", c.format, c.shape, c.indptr.tolist(), c.indices.tolist(), c.data.tolist())
        c = c.tocoo()
        return ("sparse", "coo", c.shape, c.row.tolist(), c.col.tolist(), c.data.tolist())
    if isinstance(x, np.ndarray):
        return ("nd", x.shape, x.tolist())
    if isinstance(x, dict):
        return ("dict", [(repr(k), snap(v)) for k, v in x.items()])
    if isinstance(x, (list, tuple)):
        return ("seq", [snap(v) for v in x])
    return ("val", repr(x))


def check_entry(R, e):
    X = copy.deepcopy(e.train)
    kw = copy.deepcopy(e.fit_kw)
    sx, skw = snap(X), snap(kw)
    for call in ("fit", "fit_transform", "transform"):
        key = (e.name, call)
        try:
            est = e.make()
            if call == "fit":
                est.fit(X, **kw)
            elif call == "fit_transform":
                est.fit_transform(X, **kw)
            else:
                est.fit(copy.deepcopy(e.train), **copy.deepcopy(e.fit_kw))
                tkw = copy.deepcopy(ES.variant_kw(e, "train")) if getattr(e, "variant_kw", None) else kw
                stk = snap(tkw)
                est.transform(X, **tkw)
                if snap(tkw) != stk:
                    R.fail("%s/transform-mutates-args" % e.name, "transform modified its keyword arguments (vectors)", estimator=e.name)
        except OverflowError:
            return
        except EXC as ex:
            R.case(key)
            R.fail("%s/%s-%s" % (e.name, call, type(ex).__name__), "%s raises %s: %s" % (call, type(ex).__name__, str(ex)[:100]), estimator=e.name)
            continue
        R.case(key, nontrivial=True, sample=dict(estimator=e.name, call=call) if call == "fit" else None)
        if snap(X) != sx:
            R.fail("%s/%s-mutates-X" % (e.name, call), "%s modified the data passed to it" % call, estimator=e.name, call=call)
            X = copy.deepcopy(e.train)
        if snap(kw) != skw:
            R.fail("%s/%s-mutates-kwargs" % (e.name, call), "%s modified its keyword arguments (e.g. vectors)" % call, estimator=e.name, call=call)
            kw = copy.deepcopy(e.fit_kw)


def check_params(R):
    """Objects passed as constructor parameters must not change."""
    X = [["a", "b", "q", "a"], ["b", "q"]]
    for name, make in (("TokenCooc", lambda d: V.TokenCooccurrenceVectorizer(token_dictionary=d, mask_string="[M]", window_radii=1)),
                       ("Ngram", lambda d: V.NgramVectorizer(token_dictionary=d, mask_string="[M]")),
                       ("Skipgram", lambda d: V.SkipgramVectorizer(token_dictionary=d, mask_string="[M]", window_radius=1)),
                       ("TimedCooc", lambda d: V.TimedTokenCooccurrenceVectorizer(token_dictionary=d, mask_string="[M]", window_radii=1, kernel_args={"delta": 1.0})),
                       ("MultiSetCooc", lambda d: V.MultiSetCooccurrenceVectorizer(token_dictionary=d, mask_string="[M]", window_radii=1))):
        d = {"a": 0, "b": 1}
        before = dict(d)
        data = X
        if name == "TimedCooc":
            data = [[(t, float(i)) for i, t in enumerate(s)] for s in X]
        if name == "MultiSetCooc":
            data = [[[t] for t in s] for s in X]
        try:
            est = make(d)
            est.fit(data)
            fitted = copy.deepcopy(getattr(est, "token_label_dictionary_", None) or getattr(est, "_token_dictionary_", None))
            est.transform(data)
            after_t = getattr(est, "token_label_dictionary_", None) or getattr(est, "_token_dictionary_", None)
        except EXC as ex:
            R.case((name, "params"))
            R.fail("%s/params-%s" % (name, type(ex).__name__), "raises %s: %s" % (type(ex).__name__, str(ex)[:100]), estimator=name)
            continue
        R.case((name, "params"), sample=dict(estimator=name, token_dictionary=before))
        if d != before:
            R.fail("%s/param-dict-mutated" % name, "the user's token_dictionary %r became %r" % (before, d), estimator=name)
        if after_t != fitted:
            R.fail("%s/fitted-dict-mutated" % name, "transform changed the fitted token dictionary", estimator=name)


def check_sparse_inputs(R):
    C = sp.csr_matrix(np.array([[2, 0, 1], [0, 1, 0], [4, 4, 0]], dtype=np.float64))
    Cz = C.copy()
    Cz.data[1] = 0.0  # an explicit zero the caller stored on purpose
    for name, make, X in (("RowDenoise", lambda: RowDenoisingTransformer(), Cz), ("InfoWeight-csc-unsorted", lambda: InformationWeightTransformer(), None)):
        if X is None:
            X = sp.csc_matrix(C)
            # unsorted indices within the first column
            X.indices[0:2] = X.indices[0:2][::-1].copy()
            X.data[0:2] = X.data[0:2][::-1].copy()
            X.has_sorted_indices = False
        s0 = snap(X)
        try:
            make().fit(X)
        except EXC as ex:
            R.fail("%s/%s" % (name, type(ex).__name__), "raises %s" % type(ex).__name__, estimator=name)
            continue
        R.case((name, "sparse-input"), sample=dict(estimator=name))
        if snap(X) != s0:
            R.fail("%s/mutates-sparse-input" % name, "fit changed the caller's sparse matrix storage (explicit zeros / index order)", estimator=name)


def check_tempfiles_and_determinism(R):
    e = [x for x in ES.catalogue() if x.name == "WassersteinEuc"][0]
    for name, make in (("Wasserstein", lambda cd, rs: V.WassersteinVectorizer(n_components=4, random_state=rs, cachedir=cd, memory_size="200")),
                       ("Sinkhorn", lambda cd, rs: V.SinkhornVectorizer(n_components=4, random_state=rs, cachedir=cd, memory_size="200", chunk_size=2))):
        cd = tempfile.mkdtemp(prefix="verif_c13_")
        try:
            a = make(cd, 7).fit_transform(copy.deepcopy(e.train), **copy.deepcopy(e.fit_kw))
            left = os.listdir(cd)
            R.case((name, "tempfiles"), sample=dict(estimator=name, left_behind=left))
            if left:
                R.fail("%s/temp-left-behind" % name, "after fit_transform the cache directory still contains %r" % left, estimator=name)
            b = make(cd, 7).fit_transform(copy.deepcopy(e.train), **copy.deepcopy(e.fit_kw))
            R.case((name, "determinism"))
            if not np.allclose(a, b, rtol=1e-9, atol=1e-9):
                R.fail("%s/not-deterministic" % name, "two fits with random_state=7 differ by %.3g" % np.abs(a - b).max(), estimator=name)
            # a call that raises part-way: a distribution referring to a vector that does not exist
            # fault injection: a user metric that raises after some calls, i.e. in a later block of the LOT loop
            calls = [0]
            limit = [10 ** 9]

            def faulty(x, y):
                calls[0] += 1
                if calls[0] > limit[0]:
                    raise RuntimeError("injected fault in the ground metric")
                return float(np.sqrt(np.sum((x - y) ** 2)))
            est = make(cd, 7)
            est.metric = faulty
            est.fit(copy.deepcopy(e.train), **copy.deepcopy(e.fit_kw))  # dry run: count the metric calls
            limit[0] = max(1, int(calls[0] * 0.7))
            calls[0] = 0
            raised = False
            est = make(cd, 7)
            est.metric = faulty
            try:
                est.fit(copy.deepcopy(e.train), **copy.deepcopy(e.fit_kw))
            except Exception:
                raised = True
            if not raised:
                R.notes.append("%s: the invalid distribution did not make fit raise" % name)
            left = os.listdir(cd)
            R.case((name, "tempfiles-after-raise"))
            if left:
                R.fail("%s/temp-left-after-raise" % name, "after a raising fit the cache directory contains %r" % left, estimator=name)
        finally:
            shutil.rmtree(cd, ignore_errors=True)


def check_reference_arguments(R):
    """Reference vectors / distribution supplied by the caller (rows NOT of unit length, so that an in-place normalisation shows)."""
    rng = np.random.RandomState(7)
    X = sp.csr_matrix(np.array([[1.0, 0, 2, 0, 1], [0, 3, 0, 1, 0], [2, 0, 0, 0, 2], [0, 1, 1, 1, 0]]))
    vectors = rng.normal(size=(5, 3)) * 2.0
    refs = rng.normal(size=(4, 3)) * np.array([[3.0], [0.5], [5.0], [2.0]])
    refd = np.full(4, 0.25)
    for method in ("LOT_exact", "LOT_sinkhorn"):
        for call in ("fit", "fit_transform", "transform"):
            a = dict(X=X.copy(), vectors=vectors.copy(), reference_vectors=refs.copy(), reference_distribution=refd.copy())
            before = {k: snap(v) for k, v in a.items()}
            name = "WassersteinRefs[%s]" % method
            try:
                est = V.WassersteinVectorizer(method=method, random_state=0, memory_size="1k")
                if call == "transform":
                    est.fit(X.copy(), vectors=vectors.copy(), reference_vectors=refs.copy(), reference_distribution=refd.copy())
                    est.transform(a["X"], vectors=a["vectors"])
                else:
                    getattr(est, call)(a["X"], vectors=a["vectors"], reference_vectors=a["reference_vectors"], reference_distribution=a["reference_distribution"])
            except EXC as ex:
                R.case((name, call))
                R.fail("%s/%s-%s" % (name, call, type(ex).__name__), "%s raises %s: %s" % (call, type(ex).__name__, str(ex)[:100]), estimator=name)
                continue
            R.case((name, call), nontrivial=True)
            for k, v in a.items():
                if snap(v) != before[k]:
                    R.fail("%s/%s-mutates-%s" % (name, call, k), "%s modified the caller's `%s` array" % (call, k), estimator=name, call=call)


def run(tier, seed):
    R = Recorder("for every estimator of the catalogue: deep snapshots (incl. sparse storage arrays) of X and of the keyword arguments before/after fit, fit_transform, "
                 "transform; user token_dictionary and fitted dictionary before/after; caller-owned sparse matrices with explicit zeros / unsorted indices; cache "
                 "directory listing after success and after a raising call; two fits with the same integer random_state. non-trivial = call completed")
    for e in ES.catalogue():
        check_entry(R, e)
    check_params(R)
    check_sparse_inputs(R)
    check_reference_arguments(R)
    check_tempfiles_and_determinism(R)
    return R.result()


def replay(case):
    return not any(f["id"] == case["id"] for f in run("quick", 0)["failures"])
