"""Replay of verifier counter-models, and bounded search for a failing input, on the REAL function.

  python -m bounded.replay search <qualified function> <model.json|-> [--n N] [--seed S]
  python -m bounded.replay run <replay file>

Runs under /venv/bin/python with NUMBA_DISABLE_JIT=1 so that Python semantics apply (IndexError /
UnboundLocalError surface natively).  Exit status of `run`: 1 if the recorded failure reproduces."""
import copy
import importlib
import json
import os
import random
import sys
import traceback

os.environ.setdefault("NUMBA_DISABLE_JIT", "1")
import numpy as np  # noqa: E402

from . import cspec  # noqa: E402  (sets sys.path)
import contracts as CT  # noqa: E402

FAIL_EXC = (IndexError, UnboundLocalError, KeyError, ZeroDivisionError, NameError)


def real_function(qn):
    path, name = qn.split("::")
    if path.startswith("@site/"):   # a module of an installed dependency (contracts on its installed source)
        path = path[len("@site/"):]
    modname = path[:-3].replace("/", ".")
    mod = importlib.import_module(modname)
    obj = mod
    for part in name.split("."):
        if part == "<locals>":
            raise ValueError("closures are reached through their factory: " + qn)
        obj = getattr(obj, part)
    return getattr(obj, "py_func", obj)


def split_types(s):
    parts, depth, cur = [], 0, ""
    for ch in s:
        depth += ch in "(["
        depth -= ch in ")]"
        if ch == "," and depth == 0:
            parts.append(cur.strip())
            cur = ""
        else:
            cur += ch
    if cur.strip():
        parts.append(cur.strip())
    return parts


def build(ty, v):
    """JSON value -> python/numpy value of contract type ty."""
    ty = ty.strip()
    if ty == "int":
        return int(v)
    if ty == "real":
        return float(v)
    if ty == "bool":
        return bool(v)
    if ty == "none":
        return None
    if ty.startswith("strconst:"):
        return ty.split(":", 1)[1]
    if ty in ("int[]", "list[int]"):
        a = [int(x) for x in v if not isinstance(x, str)]
        return np.array(a, dtype=np.int64) if ty == "int[]" else a
    if ty in ("real[]", "list[real]"):
        a = [float(x) for x in v if not isinstance(x, str)]
        return np.array(a, dtype=np.float64) if ty == "real[]" else a
    if ty == "bool[]":
        return np.array([bool(x) for x in v if not isinstance(x, str)], dtype=np.bool_)
    if ty in ("int[,]", "real[,]"):
        return np.array(v, dtype=np.int64 if ty[0] == "i" else np.float64).reshape(len(v), -1)
    if ty in ("list[int[]]", "list[real[]]"):
        return [build(ty[5:-1], x) for x in v]
    if ty == "coo":
        from vectorizers.coo_utils import CooArray
        if isinstance(v, dict):
            v = [v[f] for f in ("row", "col", "val", "key", "ind", "min", "depth")]
        dts = (np.int32, np.int32, np.float32, np.int64, np.int64, np.int64, np.int64)
        return CooArray(*[np.array([x for x in a if not isinstance(x, str)], dtype=dt) for a, dt in zip(v, dts)])
    if ty == "str":
        return v if isinstance(v, str) else "".join(chr(max(0, min(int(c), 0x10FFFF))) for c in v if not isinstance(c, str))
    if ty == "list[str]":
        return [build("str", x) for x in v]
    if ty.startswith("list[("):
        return [tuple(x) for x in v]
    if ty.startswith("(") and ty.endswith(")"):
        return tuple(build(t, x) for t, x in zip(split_types(ty[1:-1]), v))
    if ty.startswith("dict["):
        return {(tuple(k) if isinstance(k, list) else k): x for k, x in v} if isinstance(v, list) else dict(v)
    if ty == "opaque" or ty.startswith("func"):
        raise ValueError("no concrete value for %s" % ty)
    raise ValueError("cannot build %s" % ty)


INTS = [-1, 0, 1, 2, 3, 4, 5, 7]
REALS = [0.0, 1.0, 2.0, 0.5, 3.0, -1.0, 1e-3]


def gen(ty, rng, hint=None):
    ty = ty.strip()
    if hint is not None and callable(hint):
        return hint(rng)
    if ty == "int":
        return rng.choice(INTS)
    if ty == "real":
        return rng.choice(REALS)
    if ty == "bool":
        return rng.random() < 0.5
    if ty == "none":
        return None
    if ty.startswith("strconst:"):
        return ty.split(":", 1)[1]
    if ty in ("int[]", "list[int]"):
        n = rng.choice([0, 0, 1, 1, 2, 2, 3, 4, 5])
        if hint == "sorted_unique" or (hint is None and rng.random() < 0.6):
            a = sorted(rng.sample(range(0, 9), n))
        else:
            a = [rng.choice(INTS) for _ in range(n)]
        return np.array(a, dtype=np.int64) if ty == "int[]" else a
    if ty in ("real[]", "list[real]"):
        n = rng.choice([0, 1, 1, 2, 2, 3, 4, 5])
        a = [rng.choice(REALS) for _ in range(n)]
        return np.array(a, dtype=np.float64) if ty == "real[]" else a
    if ty == "bool[]":
        return np.array([rng.random() < 0.5 for _ in range(rng.choice([0, 1, 2, 3, 4]))], dtype=np.bool_)
    if ty in ("int[,]", "real[,]"):
        n, m = rng.choice([1, 2, 3]), rng.choice([1, 2, 3, 4])
        pool = INTS if ty[0] == "i" else REALS
        return np.array([[rng.choice(pool) for _ in range(m)] for _ in range(n)], dtype=np.int64 if ty[0] == "i" else np.float64)
    if ty in ("list[int[]]", "list[real[]]"):
        return [gen(ty[5:-1], rng, hint) for _ in range(rng.choice([0, 1, 2, 3]))]
    if ty == "str":
        alpha = "ab" if rng.random() < 0.8 else "abé中"
        return "".join(rng.choice(alpha) for _ in range(rng.choice([0, 1, 2, 3, 4, 5, 6])))
    if ty == "list[str]":
        return [gen("str", rng) for _ in range(rng.choice([0, 1, 2, 3]))]
    if ty.startswith("list[("):
        kinds = split_types(ty[6:-2])
        return [tuple(gen(k, rng) for k in kinds) for _ in range(rng.choice([0, 1, 2, 3, 4]))]
    if ty.startswith("(") and ty.endswith(")"):
        return tuple(gen(t, rng) for t in split_types(ty[1:-1]))
    if ty.startswith("dict["):
        kd, vk = [x.strip() for x in ty[5:-1].split(",")]
        d = {}
        for _ in range(rng.choice([0, 1, 2, 3])):
            k = (rng.choice(INTS), rng.choice(INTS)) if kd == "pair" else (gen("str", rng) if kd == "str" else rng.choice(INTS))
            d[k] = rng.choice([1, 2, 3]) if vk == "int" else rng.choice(REALS)
        return d
    raise ValueError("cannot generate %s" % ty)


def jsonable(v):
    if isinstance(v, np.ndarray):
        return v.tolist()
    if isinstance(v, (np.integer,)):
        return int(v)
    if isinstance(v, (np.floating,)):
        return float(v)
    if isinstance(v, (np.bool_,)):
        return bool(v)
    if isinstance(v, dict):
        if v and all(isinstance(k, str) and k.isidentifier() and k.upper() == k for k in v):   # ghost / module-constant bindings
            return {k: jsonable(x) for k, x in v.items()}
        return [[jsonable(k), jsonable(x)] for k, x in v.items()]
    if isinstance(v, (list, tuple)):
        return [jsonable(x) for x in v]
    if callable(v):
        return "<callable %s>" % getattr(v, "__name__", "f")
    return v


def run_case(qn, c, macros, args):
    """Execute the real function on args.  Returns None if nothing wrong, else a failure dict."""
    fn = real_function(qn)
    con = cspec.Contract(c, macros)
    # "__consts__": module constants the contract treats as symbolic (patched into the function's module for this call);
    # "__ghost__": values for the contract's ghost parameters (the contract must hold for each of them)
    args = dict(args)
    consts = args.pop("__consts__", {})
    ghosts = [(c.get("ghost_env") or (lambda g: g))(g) for g in (args.pop("__ghost__", None) or [{}])]
    con.extra = dict(consts)
    for g in ghosts:
        con.extra = dict(consts, **g)
        if not con.check_requires(args):
            return "precondition-false"
    call_args = copy.deepcopy(args)
    old_args = copy.deepcopy(args)
    mod = sys.modules[fn.__module__]
    saved = {k: getattr(mod, k) for k in consts}
    try:
        for k, v in consts.items():
            setattr(mod, k, v)
        with np.errstate(all="ignore"):
            result = fn(**call_args)
    except FAIL_EXC as ex:
        tb = traceback.extract_tb(ex.__traceback__)
        where = [(os.path.relpath(f.filename, cspec.REPO), f.lineno) for f in tb if "vectorizers" in f.filename]
        return dict(kind="exception", exception=type(ex).__name__, message=str(ex)[:200], where=where[-1:] if where else [])
    except Exception as ex:  # explicit raises (ValueError ...) are allowed unless the contract forbids them
        if type(ex).__name__ in c.get("may_raise", []) or not c.get("no_raise"):
            return None
        return dict(kind="exception", exception=type(ex).__name__, message=str(ex)[:200], where=[])
    finally:
        for k, v in saved.items():
            setattr(mod, k, v)
    # witnesses of the contract's existential ghost functions (ghost_out), computed from the actual result
    wit = {nm: f(call_args, result) for nm, f in (c.get("runtime_ghost_out") or {}).items()}
    for g in ghosts:
        con.extra = dict(consts, **g)
        con.extra.update(wit)
        bad, skipped = con.failed_ensures(call_args, old_args, result)
        if bad:
            return dict(kind="postcondition", failed=[dict(index=i, text=t) for i, t in bad], result=jsonable(result),
                        ghost={k: jsonable(v) for k, v in g.items()})
    return None


def search(qn, model, n_random=4000, seed=0):
    """Try the verifier's counter-model first, then seeded random small inputs. Returns replay dict or None."""
    contracts, macros = CT.load_all()
    c = contracts[qn]
    ptypes = c["params"]
    rng = random.Random(seed)
    tried = 0
    hints = c.get("gen", {})
    variants = c.get("variants") or [None]
    cands = []
    if model:
        try:
            cands.append(({k: build(ptypes[k], v) for k, v in model.items() if k in ptypes}, "verifier counter-model"))
        except Exception:
            pass
    for args, origin in cands:
        if set(args) != set(ptypes):
            continue
        tried += 1
        f = run_case(qn, c, macros, args)
        if isinstance(f, dict):
            return dict(function=qn, origin=origin, args={k: jsonable(v) for k, v in args.items()}, failure=f, tried=tried)
    gen_all = c.get("gen_all")
    for i in range(n_random):
        var = rng.choice(variants)
        pt = dict(ptypes, **var) if var else ptypes
        try:
            args = gen_all(rng) if gen_all else {k: gen(t, rng, hints.get(k)) for k, t in pt.items()}
        except ValueError:
            return None
        tried += 1
        f = run_case(qn, dict(c, params=pt), macros, args)
        if isinstance(f, dict):
            return dict(function=qn, origin="bounded search (seed %d, case %d)" % (seed, i), args={k: jsonable(v) for k, v in args.items()}, types=pt, failure=f, tried=tried)
    return None


def crosscheck(qns, n, seed):
    """Engine cross-check: run every listed function on seeded inputs satisfying its precondition and evaluate the SAME contract
    text at run time.  On a tree where pyvc discharged every obligation a failure here means the engine or a trusted library
    contract is wrong (checker error), never a verdict about the repository."""
    contracts, macros = CT.load_all()
    out = []
    for qn in qns:
        c = contracts.get(qn)
        if c is None or c.get("segment") or "#" in qn:
            out.append(dict(function=qn, status="skipped", why="segment / no callable entry point"))
            continue
        try:
            real_function(qn)
        except Exception as ex:
            out.append(dict(function=qn, status="skipped", why="not importable as a plain function: %s" % str(ex)[:60]))
            continue
        rng = random.Random(seed)
        ran = ok_pre = 0
        failure = None
        cspec.UNEVALUABLE.clear()
        variants = c.get("variants") or [None]
        try:
            for i in range(n):
                var = rng.choice(variants)
                pt = dict(c["params"], **var) if var else c["params"]
                args = c["gen_all"](rng) if c.get("gen_all") else {k: gen(t, rng, (c.get("gen") or {}).get(k)) for k, t in pt.items()}
                ran += 1
                f = run_case(qn, dict(c, params=pt), macros, args)
                if f == "precondition-false":
                    continue
                ok_pre += 1
                if isinstance(f, dict):
                    failure = dict(args={k: jsonable(v) for k, v in args.items()}, failure=f)
                    break
        except ValueError as ex:
            out.append(dict(function=qn, status="skipped", why="inputs not generatable: %s" % str(ex)[:60]))
            continue
        out.append(dict(function=qn, status="failed" if failure else "ok", generated=ran, satisfying_precondition=ok_pre, failure=failure,
                        clauses_not_evaluated_at_run_time=sorted(cspec.UNEVALUABLE)))
    return out


def main(argv):
    if argv[0] == "crosscheck":
        n = int(argv[argv.index("--n") + 1]) if "--n" in argv else 300
        seed = int(argv[argv.index("--seed") + 1]) if "--seed" in argv else 0
        qns = [a for a in argv[1:] if "::" in a]
        print(json.dumps(crosscheck(qns, n, seed)))
        return 0
    if argv[0] == "search":
        qn = argv[1]
        model = json.load(sys.stdin if argv[2] == "-" else open(argv[2])) if len(argv) > 2 and argv[2] != "none" else None
        n = int(argv[argv.index("--n") + 1]) if "--n" in argv else 4000
        seed = int(argv[argv.index("--seed") + 1]) if "--seed" in argv else 0
        print(json.dumps(search(qn, model, n, seed)))
        return 0
    if argv[0] == "run":
        rp = json.load(open(argv[1]))
        case = rp.get("case")
        if not case:
            print("replay file carries no concrete input (no-failing-input-found); obligation: %s" % rp.get("obligation"))
            print(json.dumps(rp.get("solver"), indent=1)[:2000])
            return 0
        contracts, macros = CT.load_all()
        c = contracts[case["function"]]
        pt = case.get("types") or c["params"]
        fixed = c.get("replay_fixed", {})
        args = {k: (v if k.startswith("__") else fixed[k] if k in fixed else build(pt[k], v)) for k, v in case["args"].items()}
        f = run_case(case["function"], dict(c, params=pt), macros, args)
        print("replay of %s on %s:" % (case["function"], json.dumps(case["args"])))
        print("  outcome:", json.dumps(f))
        return 1 if isinstance(f, dict) else 0
    print(__doc__)
    return 3


if __name__ == "__main__":
    sys.exit(main(sys.argv[1:]))
