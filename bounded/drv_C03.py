"""C03 bounded driver: co-occurrence matrices vs the windowed, kernel-weighted definition (BOUNDED)."""
import random

import numpy as np

from .driver import Recorder
from . import cooc_common as CC


def check(R, X, cfg, timed=False, tag="token"):
    key = (tag, repr(X), repr(cfg))
    try:
        M_ref, labels, blocks, _ = CC.reference_matrix(X, cfg, timed)
    except Exception as ex:  # reference cannot handle -> checker problem, not a verdict
        raise
    if not labels:
        return
    case = dict(X=X, cfg=cfg, timed=timed)
    try:
        M_api, v = CC.api_matrix(X, cfg, timed)
    except (IndexError, UnboundLocalError, KeyError, ZeroDivisionError) as ex:
        R.case(key)
        R.fail("%s/%s" % (tag, type(ex).__name__), "fit_transform raises %s: %s" % (type(ex).__name__, str(ex)[:100]), **case)
        return
    R.case(key, nontrivial=bool(M_ref.any()), sample=dict(case, matrix=M_api.tolist()) if M_ref.any() else None)
    d = CC.compare(M_api, v, M_ref, labels, blocks)
    if d:
        R.fail("%s/definition" % tag, d, **case)
        return
    # 'before' is the transpose of 'after' for fixed radii without window normalisation
    if cfg.get("window_orientations") == "directional" and cfg.get("window_functions") == "fixed" and not cfg.get("normalize_windows") \
            and not cfg.get("kernel_args", {}).get("normalize"):
        n = len(labels)
        if not np.allclose(M_api[:, :n], M_api[:, n:].T, rtol=2e-5, atol=1e-6):
            R.fail("%s/transpose" % tag, "'before' block is not the transpose of the 'after' block", **case)


def check_multiset(R, X, cfg):
    """X: list of documents, each a list of multisets (lists of tokens).  Fixed radii, no pruning: the vocabulary is every token."""
    from vectorizers import MultiSetCooccurrenceVectorizer
    from spec import cooc as S
    key = ("multiset", repr(X), repr(cfg))
    case = dict(X=X, cfg=cfg, multiset=True)
    kw = dict(cfg)
    if isinstance(kw.get("window_orientations"), list):
        n = len(kw["window_orientations"])
        if isinstance(kw.get("kernel_functions"), str):
            kw["kernel_functions"] = [kw["kernel_functions"]] * n
        kw["window_functions"] = ["fixed"] * n
    try:
        v = MultiSetCooccurrenceVectorizer(**kw)
        M_api = np.asarray(v.fit_transform([[list(m) for m in D] for D in X]).todense(), dtype=np.float64)
    except (IndexError, UnboundLocalError, KeyError, ZeroDivisionError) as ex:
        R.case(key)
        R.fail("multiset/%s" % type(ex).__name__, "fit_transform raises %s: %s" % (type(ex).__name__, str(ex)[:100]), **case)
        return
    d = v.token_label_dictionary_
    docs = [[[d[t] for t in m] for m in D] for D in X]
    blocks = CC.blocks_of(dict(cfg, window_functions="fixed"))
    M_ref = S.multiset_cooccurrence(docs, len(d), blocks, cfg.get("normalize_windows", True))
    R.case(key, nontrivial=bool(M_ref.any()), sample=dict(case, matrix=M_api.tolist()) if M_ref.any() else None)
    if M_api.shape != M_ref.shape:
        R.fail("multiset/shape", "shape %r, expected %r" % (M_api.shape, M_ref.shape), **case)
    elif not np.allclose(M_api, M_ref, rtol=2e-5, atol=1e-6):
        i, j = np.unravel_index(np.argmax(np.abs(M_api - M_ref)), M_api.shape)
        lab = {i_: t for t, i_ in d.items()}
        # a kernel offset > 0 has its own failure class
        fid = "multiset/definition-offset" if any(b["kargs"].get("offset", 0) > 0 for b in blocks) else "multiset/definition"
        R.fail(fid, "entry (%s, col %d) = %r, definition gives %r" % (lab[i], j, M_api[i, j], M_ref[i, j]), **case)


def run(tier, seed):
    R = Recorder("corpora of 1..3 sequences (incl. empty) of length <= 4 over 3 tokens x sampled combinations of orientation(s), radii, "
                 "window function, kernel, offset/normalize/power, mix weights, normalize_windows (full grid of %d configurations, sampled per corpus); "
                 "timed variant with timestamp offsets {0, 1e-3 scale, 1.6e9}; non-trivial = reference matrix non-zero" % len(CC.CONFIGS))
    rng = random.Random(seed)
    seqs = CC.sequences(4)
    corpora = [[s] for s in seqs if s] + [[rng.choice(seqs), rng.choice(seqs)] for _ in range(80)] + [[rng.choice(seqs) for _ in range(3)] for _ in range(40)]
    corpora += [[["a", "a", "a"]], [["a"], [], ["b", "a"]], [[], ["c"]]]
    ncfg = 3 if tier == "quick" else 24
    if tier == "quick":
        corpora = rng.sample(corpora, 110) + [[["a", "a", "a"]], [["a"], [], ["b", "a"]]]
    for X in corpora:
        for cfg in rng.sample(CC.CONFIGS, ncfg):
            check(R, X, cfg)
    # timed
    tcfgs = [dict(window_orientations=o, window_radii=r, kernel_functions=k, kernel_args=dict(ka, delta=d), normalize_windows=nw)
             for o in ("after", "directional") for r in (1, 2) for k in ("flat", "geometric") for ka in ({}, {"offset": 1}) for d in (1.0, 0.5) for nw in (True, False)]
    for _ in range(40 if tier == "quick" else 600):
        L = rng.choice([1, 2, 3, 4, 5])
        base = rng.choice([0.0, 1.6e9, 1e-3])
        scale = 1e-3 if base == 1e-3 else 1.0
        t = base
        seq = []
        for _i in range(L):
            t += scale * rng.choice([0.25, 0.5, 1.0, 2.0])
            seq.append((rng.choice(CC.ALPHA), t))
        cfg = dict(rng.choice(tcfgs))
        cfg["kernel_args"] = dict(cfg["kernel_args"], delta=cfg["kernel_args"]["delta"] * scale)
        if cfg["kernel_functions"] == "geometric":
            cfg["kernel_args"]["power"] = 0.6
        r = rng.random()
        if r < 0.35:
            cfg.update(min_occurrences=2, mask_string="[M]")
        elif r < 0.5:
            cfg.update(min_occurrences=2, mask_string="[M]", nullify_mask=True)
        elif r < 0.6:
            cfg.update(min_occurrences=2)
        check(R, [seq], cfg, timed=True, tag="timed")
    # multiset variant (documents = lists of multisets); fixed radii, flat / geometric kernels, kernel offset and normalisation
    mcfgs = [dict(window_orientations=o, window_radii=r, kernel_functions=k, kernel_args=ka, normalize_windows=nw)
             for o in ("after", "before", "directional", ["before", "after"]) for r in (0, 1, 2) for k in ("flat", "geometric")
             for ka in ({}, {"offset": 1}, {"normalize": True}, {"offset": 1, "normalize": True}, {"offset": 2}) for nw in (True, False)]
    msets = [["a"], ["b"], ["a", "b"], ["c", "a"], ["b", "b", "c"], ["a", "b", "c"]]
    for _ in range(60 if tier == "quick" else 1200):
        docs = [[list(rng.choice(msets)) for _j in range(rng.choice([1, 2, 3, 4]))] for _d in range(rng.choice([1, 1, 2]))]
        cfg = dict(rng.choice(mcfgs))
        if isinstance(cfg["window_orientations"], list):
            cfg["window_radii"] = [cfg["window_radii"], max(0, cfg["window_radii"] - 1)]
        if cfg["kernel_functions"] == "geometric":
            cfg["kernel_args"] = dict(cfg["kernel_args"], power=0.5)
        check_multiset(R, docs, cfg)
    return R.result()


def replay(case):
    if case.get("multiset"):
        R = Recorder("replay")
        check_multiset(R, case["X"], case["cfg"])
        return not any(f["id"] == case["id"] for f in R.failures)
    return _replay_seq(case)


def _replay_seq(case):
    R = Recorder("replay")
    X = case["X"]
    if case.get("timed"):
        X = [[tuple(p) for p in s] for s in X]
    tag = case["id"].split("/")[0]
    check(R, X, case["cfg"], bool(case.get("timed")), tag)
    return not any(f["id"] == case["id"] for f in R.failures)
