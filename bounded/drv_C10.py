"""C10 bounded driver: the edge-input catalogue executed interpreted (quick) and, in thorough tier, also compiled and
compiled with NUMBA_BOUNDSCHECK=1 in child processes; results must agree and no Index/Unbound error may occur (BOUNDED)."""
import json
import os
import subprocess
import sys
import tempfile

import numpy as np

from .driver import Recorder

ROOT = os.path.dirname(os.path.dirname(os.path.abspath(__file__)))
MODES = {"interpreted": {"NUMBA_DISABLE_JIT": "1"}, "compiled": {"NUMBA_DISABLE_JIT": "0"}, "boundscheck": {"NUMBA_DISABLE_JIT": "0", "NUMBA_BOUNDSCHECK": "1"}}


def run_mode(mode, only=None):
    fd, path = tempfile.mkstemp(suffix=".json", prefix="c10_")
    os.close(fd)
    env = dict(os.environ)
    env.update(MODES[mode])
    env["PYTHONWARNINGS"] = "ignore"
    cmd = [sys.executable, "-W", "ignore", "-m", "bounded.c10_scenarios", "--out", path] + (["--only", only] if only else [])
    p = subprocess.Popen(cmd, cwd=ROOT, env=env, stdout=subprocess.PIPE, stderr=subprocess.PIPE, text=True)
    return p, path


def close(a, b, tol):
    if isinstance(a, list) and isinstance(b, list):
        return len(a) == len(b) and all(close(x, y, tol) for x, y in zip(a, b))
    if isinstance(a, (int, float)) and isinstance(b, (int, float)):
        if a != a and b != b:
            return True
        return abs(a - b) <= tol * max(1.0, abs(a), abs(b))
    return a == b


def run(tier, seed):
    modes = ["interpreted"] if tier == "quick" else ["interpreted", "compiled", "boundscheck"]
    R = Recorder("edge-input catalogue (bounded/c10_scenarios.py: length-0/1 strings and sequences, strings collapsing to one code, tiny accumulator buffers with several "
                 "threads, radius 0 and radius larger than the sequence, EM with cells pruned by epsilon, supplied dictionaries with absent tokens, empty multisets, sparse "
                 "helpers with empty operands, short windows) executed in child processes in modes %r; no IndexError/UnboundLocalError/KeyError/abnormal exit, and equal results "
                 "across modes (1e-4 relative). non-trivial = scenario produced a value" % modes)
    procs = {m: run_mode(m) for m in modes}
    results = {}
    for m, (p, path) in procs.items():
        out, err = p.communicate()
        if p.returncode != 0 or not os.path.exists(path) or os.path.getsize(path) == 0:
            R.case(("mode", m))
            R.fail("mode-%s/abnormal-exit" % m, "the %s run of the catalogue terminated abnormally (rc %r): %s" % (m, p.returncode, (err or "")[-300:]), mode=m)
            continue
        results[m] = json.load(open(path))
        os.unlink(path)
    for m, res in results.items():
        for name, r in res.items():
            R.case((m, name), nontrivial=r.get("ok", False), sample=dict(mode=m, scenario=name, ok=r.get("ok")) if name == "bpe_short_strings" else None)
            if not r["ok"]:
                R.fail("%s/%s" % (name, r["exception"]), "scenario %s raises %s in %s mode: %s" % (name, r["exception"], m, r.get("message", "")[:120]), mode=m, scenario=name)
    base = results.get("compiled")
    if base:
        for m in ("interpreted", "boundscheck"):
            for name, r in results.get(m, {}).items():
                b = base.get(name)
                if b and b["ok"] and r["ok"] and not close(b["value"], r["value"], 1e-4):
                    R.fail("%s/differs-%s" % (name, m), "scenario %s: %s result differs from the normal compiled execution" % (name, m), mode=m, scenario=name)
    return R.result()


def replay(case):
    m = case.get("mode", "interpreted")
    p, path = run_mode(m, case.get("scenario"))
    p.communicate()
    if p.returncode != 0:
        return False
    res = json.load(open(path))
    os.unlink(path)
    return all(r["ok"] for r in res.values())
