"""Concrete (run-time) interpretation of the same contract text that pyvc proves.

Runs under /venv/bin/python next to the real code.  One contract text, two
interpretations: pyvc/spec.py (symbolic) and this module (concrete)."""
import ast
import copy
import os
import sys

import numpy as np

REPO = os.environ.get("VERIF_REPO", "/repo")
if REPO not in sys.path:
    sys.path.insert(0, REPO)
sys.path.insert(0, os.path.dirname(os.path.dirname(os.path.abspath(__file__))))


class NotEvaluable(Exception):
    pass


UNEVALUABLE = {}   # clause text -> reason: postconditions the run-time interpretation could not evaluate (ghost-only clauses)


def _forall(lo, hi, f):
    return all(f(k) for k in range(int(lo), int(hi)))


def _forall2(lo, hi, f):
    return all(f(j, k) for j in range(int(lo), int(hi)) for k in range(int(lo), int(hi)))


def _exists(lo, hi, f):
    return any(f(k) for k in range(int(lo), int(hi)))


def _strictly_increasing(a, lo=0, hi=None):
    hi = len(a) if hi is None else hi
    return all(a[k] < a[k + 1] for k in range(int(lo), int(hi) - 1))


def _nondecreasing(a, lo=0, hi=None):
    hi = len(a) if hi is None else hi
    return all(a[k] <= a[k + 1] for k in range(int(lo), int(hi) - 1))


def _member(x, a, lo=0, hi=None):
    hi = len(a) if hi is None else hi
    return any(a[k] == x for k in range(int(lo), int(hi)))


def _psum(a, k):
    return sum(a[:int(k)])


def _ksum(keys, vals, K, lo, hi):
    return float(sum(float(vals[p]) for p in range(int(lo), int(hi)) if keys[p] == K))


def _dict_values_in(d, lo, hi):
    return all(lo <= v < hi for v in d.values())


def _is_int(x):
    return float(x) == int(x)


class _Rewrite(ast.NodeTransformer):
    """implies/ite become lazy python; old(e)/unchanged(e) evaluate e in the entry snapshot."""

    def __init__(self, macros):
        self.macros = macros

    def visit_Call(self, n):
        if isinstance(n.func, ast.Name) and n.func.id in self.macros:
            params, body = self.macros[n.func.id]
            tree = ast.parse(body.strip(), mode="eval").body
            mapping = dict(zip(params, n.args))

            class S(ast.NodeTransformer):
                def visit_Name(s, m):
                    return copy.deepcopy(mapping[m.id]) if m.id in mapping else m
            return self.visit(S().visit(tree))
        n = self.generic_visit(n)
        if isinstance(n.func, ast.Name):
            f = n.func.id
            if f == "implies":
                return ast.BoolOp(op=ast.Or(), values=[ast.UnaryOp(op=ast.Not(), operand=n.args[0]), n.args[1]])
            if f == "iff":
                return ast.Compare(left=ast.Call(func=ast.Name(id="bool", ctx=ast.Load()), args=[n.args[0]], keywords=[]), ops=[ast.Eq()],
                                   comparators=[ast.Call(func=ast.Name(id="bool", ctx=ast.Load()), args=[n.args[1]], keywords=[])])
            if f == "ite":
                return ast.IfExp(test=n.args[0], body=n.args[1], orelse=n.args[2])
            if f == "old":
                return ast.Call(func=ast.Name(id="__old", ctx=ast.Load()), args=[ast.Constant(value=ast.unparse(n.args[0]))], keywords=[])
            if f == "unchanged":
                return ast.Call(func=ast.Name(id="__unchanged", ctx=ast.Load()), args=[ast.Constant(value=ast.unparse(n.args[0])), n.args[0]], keywords=[])
            if f == "same":
                return ast.Compare(left=n.args[0], ops=[ast.Is()], comparators=[n.args[1]])
            if f == "is_none":
                return ast.Compare(left=n.args[0], ops=[ast.Is()], comparators=[ast.Constant(value=None)])
            if f == "card":
                return ast.Call(func=ast.Name(id="len", ctx=ast.Load()), args=n.args, keywords=[])
        return n


def _deep_equal(a, b):
    if hasattr(a, "to_tuples") and hasattr(b, "to_tuples"):   # pandas IntervalIndex
        return list(a.to_tuples()) == list(b.to_tuples())
    if isinstance(a, np.ndarray) or isinstance(b, np.ndarray):
        a, b = np.asarray(a), np.asarray(b)
        return a.shape == b.shape and bool(np.all((a == b) | ((a != a) & (b != b))))
    if isinstance(a, dict):
        return isinstance(b, dict) and a.keys() == b.keys() and all(_deep_equal(a[k], b[k]) for k in a)
    if isinstance(a, (list, tuple)):
        return len(a) == len(b) and all(_deep_equal(x, y) for x, y in zip(a, b))
    return a == b


class Contract:
    def __init__(self, c, macros):
        self.c, self.macros = c, macros
        self._code = {}
        self.extra = {}   # run-time values of ghost parameters and symbolic module constants

    def compile(self, src):
        if src not in self._code:
            tree = ast.parse(src.strip(), mode="eval")
            tree = ast.fix_missing_locations(ast.Expression(_Rewrite(self.macros).visit(tree.body)))
            self._code[src] = compile(tree, "<contract>", "eval")
        return self._code[src]

    def env(self, args, old_args=None, result=None, has_result=False):
        e = dict(forall=_forall, forall2=_forall2, exists=_exists, strictly_increasing=_strictly_increasing, nondecreasing=_nondecreasing,
                 member=_member, psum=_psum, ksum=_ksum, is_int=_is_int, dict_values_in=_dict_values_in, np=np, len=len, abs=abs, min=min, max=max)
        e.update(self.extra)
        e.update(args)
        # ghost locals defined by plain assignments in the contract's ghost_init (e.g. a ghost table computed from the arguments)
        gi = self.c.get("ghost_init")
        if gi:
            src = "\n".join(gi) if isinstance(gi, (list, tuple)) else gi
            for st in ast.parse(src).body:
                if isinstance(st, ast.Assign):
                    try:
                        exec(compile(ast.Module([st], []), "<ghost_init>", "exec"), e)
                    except Exception:
                        pass
        if has_result:
            e["result"] = result
        if old_args is not None:
            def _old(src):
                oe = self.env(old_args)
                return eval(self.compile(src), oe)

            def _unch(src, now):
                return _deep_equal(_old(src), now)
            e["__old"], e["__unchanged"] = _old, _unch
        return e

    def holds(self, src, env):
        try:
            return bool(eval(self.compile(src), env))
        except NameError as ex:
            raise NotEvaluable(str(ex))

    def check_requires(self, args):
        env = self.env(args)
        for r in list(self.c.get("requires", [])) + list(self.c.get("assumed_requires", [])):
            try:
                if not self.holds(r, env):
                    return False
            except NotEvaluable:
                continue
            except (IndexError, TypeError, ValueError, KeyError, ZeroDivisionError):
                return False
        return True

    def failed_ensures(self, args, old_args, result):
        """List of (index, text) of postconditions false on this run; ghost-dependent ones are skipped."""
        env = self.env(args, old_args, result, True)
        bad, skipped = [], 0
        for i, e in enumerate(list(self.c.get("ensures", [])) + list(self.c.get("runtime_ensures", []))):
            try:
                if not self.holds(e, env):
                    bad.append((i + 1, e))
            except NotEvaluable as ex:
                skipped += 1
                UNEVALUABLE[e] = str(ex)[:80]
            except (IndexError, KeyError) as ex:
                bad.append((i + 1, e + "  [raised %s while evaluating]" % type(ex).__name__))
        return bad, skipped
