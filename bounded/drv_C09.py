"""C09 bounded driver: byte-pair encodings are lossless, reproducible, within budget (BOUNDED)."""
import itertools
import random

import numpy as np

from .driver import Recorder
from vectorizers import BytePairEncodingVectorizer


def all_strings(alpha, maxlen):
    out = []
    for n in range(maxlen + 1):
        out += ["".join(t) for t in itertools.product(alpha, repeat=n)]
    return out


def decode(codes, v):
    return "".join(chr(int(c)) if c <= v.max_char_code_ else v.tokens_[int(c) - v.max_char_code_ - 1] for c in codes)


def has_repeated_pair(X):
    cnt = {}
    for s in X:
        for i in range(len(s) - 1):
            cnt[s[i:i + 2]] = cnt.get(s[i:i + 2], 0) + 1
    return any(c >= 2 for c in cnt.values())


def expected_text(s, v):
    return "".join(ch if ord(ch) <= v.max_char_code_ else chr(0) for ch in s)


def check_corpus(R, X, vocab, minocc, mcc, extra):
    cfg = dict(X=X, max_vocab_size=vocab, min_token_occurrence=minocc, max_char_code=mcc)
    key = (tuple(X), vocab, minocc, str(mcc))
    try:
        v = BytePairEncodingVectorizer(max_vocab_size=vocab, min_token_occurrence=minocc, return_type="sequences", max_char_code=mcc)
        enc = v.fit_transform(list(X))
    except ValueError as ex:
        R.case(key, nontrivial=False)
        if not has_repeated_pair(X):
            R.fail("fit/no-repeated-pair", "fit_transform raises ValueError when no adjacent pair occurs twice in the corpus", **cfg)
        else:
            R.fail("fit/ValueError", "fit_transform raises ValueError: %s" % str(ex)[:80], **cfg)
        return
    except (IndexError, UnboundLocalError, KeyError) as ex:
        R.case(key)
        R.fail("fit/%s" % type(ex).__name__, "fit_transform raises %s: %s" % (type(ex).__name__, str(ex)[:80]), **cfg)
        return
    R.case(key, nontrivial=len(v.tokens_) > 0, sample=dict(cfg, encodings=[list(map(int, e)) for e in enc], tokens=list(v.tokens_)) )
    # lossless on the training strings
    for s, e in zip(X, enc):
        if decode(e, v) != s:
            R.fail("fit_transform/lossy", "decode(fit_transform)=%r != %r" % (decode(e, v), s), **cfg)
            break
    # budget and token = concatenation of its pair
    if len(v.tokens_) > vocab:
        R.fail("budget", "%d tokens learned for max_vocab_size=%d" % (len(v.tokens_), vocab), **cfg)
    for k, (p, q) in enumerate(v.code_list_):
        ps = chr(p) if p <= v.max_char_code_ else v.tokens_[p - v.max_char_code_ - 1]
        qs = chr(q) if q <= v.max_char_code_ else v.tokens_[q - v.max_char_code_ - 1]
        if v.tokens_[k] != ps + qs:
            R.fail("token-not-pair", "tokens_[%d]=%r but its pair spells %r" % (k, v.tokens_[k], ps + qs), **cfg)
            break
    # transform re-encodes the training strings identically
    try:
        enc2 = v.transform(list(X))
        if len(enc2) != len(enc) or any(list(a) != list(b) for a, b in zip(enc, enc2)):
            R.fail("transform!=fit_transform", "transform(X) %r differs from fit_transform(X) %r" % ([list(map(int, a)) for a in enc2], [list(map(int, a)) for a in enc]), **cfg)
        # new strings (unseen, empty, one character, out-of-range character)
        enc3 = v.transform(list(extra))
        for s, e in zip(extra, enc3):
            if decode(e, v) != expected_text(s, v):
                R.fail("transform/lossy", "decode(transform(%r))=%r" % (s, decode(e, v)), **dict(cfg, new=extra))
                break
    except (IndexError, UnboundLocalError, KeyError, ValueError) as ex:
        R.fail("transform/%s" % type(ex).__name__, "transform raises %s: %s" % (type(ex).__name__, str(ex)[:80]), **cfg)
        return
    # tokens / matrix outputs are the code strings / code counts of the sequences output
    try:
        vt = BytePairEncodingVectorizer(max_vocab_size=vocab, min_token_occurrence=minocc, return_type="tokens", max_char_code=mcc)
        tok = vt.fit_transform(list(X))
        want = [[chr(int(c)) if c <= v.max_char_code_ else v.tokens_[int(c) - v.max_char_code_ - 1] for c in e] for e in enc]
        if [list(t) for t in tok] != want:
            R.fail("tokens-output", "'tokens' output %r is not the code strings of 'sequences' %r" % (tok, want), **cfg)
        # the same for transform (training strings and new strings), against the sequences transform returns
        allx = list(X) + list(extra)
        tok2 = vt.transform(allx)
        seq2 = v.transform(allx)
        want2 = [[chr(int(c)) if c <= v.max_char_code_ else v.tokens_[int(c) - v.max_char_code_ - 1] for c in e] for e in seq2]
        if [list(t) for t in tok2] != want2:
            R.fail("tokens-transform", "transform 'tokens' output %r is not the code strings of the 'sequences' output %r" % ([list(t) for t in tok2], want2), **dict(cfg, new=extra))
        elif any("".join(t) != expected_text(s_, v) for t, s_ in zip(tok2, allx)):
            R.fail("tokens-transform-lossy", "concatenated 'tokens' of transform do not reproduce the string", **dict(cfg, new=extra))
        vm = BytePairEncodingVectorizer(max_vocab_size=vocab, min_token_occurrence=minocc, return_type="matrix", max_char_code=mcc)
        if any(len(e) for e in enc):
            M = vm.fit_transform(list(X))
            Mt = vm.transform(list(X) + list(extra))
            cols = vm.column_label_dictionary_
            dense = M.toarray()
            if dense.shape != (len(X), len(cols)) or Mt.shape != (len(X) + len(extra), len(cols)):
                R.fail("matrix-shape", "matrix shapes %r / %r for %d columns" % (dense.shape, Mt.shape, len(cols)), **cfg)
            else:
                for r, e in enumerate(enc):
                    for code, col in cols.items():
                        if dense[r, col] != sum(1 for c in e if c == code):
                            R.fail("matrix-counts", "matrix[%d, col of code %d]=%r != count in sequences" % (r, code, dense[r, col]), **cfg)
                            return
                if not np.array_equal(Mt.toarray()[:len(X)], dense):
                    R.fail("matrix-transform", "'matrix' transform of the training strings differs from fit_transform", **cfg)
    except (IndexError, UnboundLocalError, KeyError, ValueError) as ex:
        R.fail("outputs/%s" % type(ex).__name__, "tokens/matrix output raises %s: %s" % (type(ex).__name__, str(ex)[:80]), **cfg)


def run(tier, seed):
    maxlen = 4 if tier == "quick" else 5
    strings = all_strings("ab", maxlen)
    R = Recorder("all corpora of 1..2 strings over {a,b} of length 0..%d (exhaustive), seeded corpora of 3 strings and unicode samples; "
                 "x max_vocab_size {1,2,3,10} x min_token_occurrence {1,2} x max_char_code {0,'ascii'}; "
                 "non-trivial = at least one token learned" % maxlen)
    R.scope = dict(alphabet="ab", max_len=maxlen)
    rng = random.Random(seed)
    extra = ["", "a", "b", "ab", "ba", "aab", "abab", "bbbb", "aéb", "中"]
    corpora = [(s,) for s in strings] + list(itertools.product(strings, repeat=2))
    if tier == "quick":
        corpora = [c for c in corpora if len(c) == 1] + rng.sample([c for c in corpora if len(c) == 2], 250)
    else:
        corpora += [tuple(rng.choice(strings) for _ in range(3)) for _ in range(1500)]
    corpora += [("aaaa", "abab", "a", ""), ("abab", "ab"), ("ab", "ab", "ab"), ("aéaé", "aé"), ("中中中中",)]
    configs = [(k, m, mcc) for k in (1, 2, 3, 10) for m in (1, 2) for mcc in (0, "ascii")]
    for X in corpora:
        cfgs = configs if tier != "quick" else rng.sample(configs, 4)
        for k, m, mcc in cfgs:
            check_corpus(R, list(X), k, m, mcc, extra)
    R.exhaustive = tier != "quick"
    return R.result()


def replay(case):
    R = Recorder("replay")
    check_corpus(R, case["X"], case["max_vocab_size"], case["min_token_occurrence"], case["max_char_code"], case.get("new") or ["", "a", "ab", "aéb"])
    return not any(f["id"] == case["id"] for f in R.failures)
