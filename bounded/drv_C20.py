"""C20 bounded driver: histogram rows conserve the events; KDE rows depend only on the value multiset (BOUNDED)."""
import random

import numpy as np

from .driver import Recorder
import vectorizers as V

EXC = (IndexError, KeyError, UnboundLocalError, ZeroDivisionError, TypeError, ValueError)


def check_hist(R, X, Xnew, n, strategy, rng_abs, outlier):
    case = dict(X=[list(map(float, s)) for s in X], new=[list(map(float, s)) for s in Xnew], n_components=n, strategy=strategy,
                absolute_range=[repr(rng_abs[0]), repr(rng_abs[1])], append_outlier_bins=outlier)
    key = ("hist", repr(case))
    flat = [v for s in X for v in s if rng_abs[0] < v < rng_abs[1]]
    if len(set(flat)) < 2:
        return  # constant / empty training data: see known finding
    try:
        h = V.HistogramVectorizer(n_components=n, strategy=strategy, absolute_range=rng_abs, append_outlier_bins=outlier)
        h.fit([np.array(s, dtype=float) for s in X])
        out = h.transform([np.array(s, dtype=float) for s in list(X) + list(Xnew)])
    except EXC as ex:
        R.case(key)
        R.fail("hist/%s" % type(ex).__name__, "raises %s: %s" % (type(ex).__name__, str(ex)[:100]), **case)
        return
    bins = list(h.bin_intervals_)
    R.case(key, nontrivial=True, sample=dict(case, bins=[[b.left, b.right] for b in bins]))
    for a, b in zip(bins, bins[1:]):
        if not (a.left < a.right and a.right == b.left):
            R.fail("hist/bins-not-partition", "bins %r are not contiguous / increasing" % [[x.left, x.right] for x in bins], **case)
            return
    if bins[0].left != rng_abs[0] or bins[-1].right != rng_abs[1]:
        lo_ok = bins[0].left <= min(flat) if rng_abs[0] == -np.inf else bins[0].left == rng_abs[0]
        if bins[0].left != rng_abs[0] or bins[-1].right != rng_abs[1]:
            R.fail("hist/range-not-covered", "bins span (%r, %r], absolute range is (%r, %r]" % (bins[0].left, bins[-1].right, rng_abs[0], rng_abs[1]), **case)
            return
    for i, s in enumerate(list(X) + list(Xnew)):
        want = sum(1 for v in s if rng_abs[0] < v <= rng_abs[1])
        row = out[i]
        if (row < 0).any() or not np.allclose(row, np.round(row)) or row.sum() != want:
            R.fail("hist/row-total", "row %d %r sums to %r, %d of its values lie in the absolute range (lower excluded, upper included)" % (i, row.tolist(), row.sum(), want), **case)
            return


def check_kde(R, X, rng):
    case = dict(X=[list(map(float, s)) for s in X])
    key = ("kde", repr(case))
    try:
        k = V.KDEVectorizer(n_components=7).fit([np.array(s) for s in X])
        a = k.transform([np.array(s) for s in X])
        perm = [list(s) for s in X]
        for s in perm:
            rng.shuffle(s)
        b = k.transform([np.array(s) for s in perm])
    except EXC as ex:
        R.case(key)
        R.fail("kde/%s" % type(ex).__name__, "raises %s: %s" % (type(ex).__name__, str(ex)[:100]), **case)
        return
    R.case(key, nontrivial=True, sample=dict(case, row0=np.round(a[0], 5).tolist()))
    if (a < 0).any() or not np.all(np.isfinite(a)):
        R.fail("kde/negative", "KDE rows contain negative / non-finite densities", **case)
    if not np.allclose(a, b, rtol=1e-12, atol=1e-12):
        R.fail("kde/order-dependent", "KDE row changes when the sequence is permuted (max diff %.3g)" % np.abs(a - b).max(), **case)
    if a.shape != (len(X), 7):
        R.fail("kde/shape", "shape %r" % (a.shape,), **case)


def run(tier, seed):
    R = Recorder("seeded collections of 1..4 numeric sequences (values on a small grid, repeated extremes) x n_components 1..5 x strategy uniform/quantile(non-negative data) x "
                 "absolute_range {(-inf,inf), (0,10), (-5,5), tight} x append_outlier_bins; transform on the training data plus far outliers, values equal to the training "
                 "min/max and to the range bounds: bins form a partition of the absolute range, row totals conserve events; KDE permutation invariance. non-trivial = evaluated")
    rng = random.Random(seed)
    grid = [0.0, 0.5, 1.0, 1.5, 2.0, 3.0, 4.5, 7.0, 9.0, 10.0]
    for _ in range(120 if tier == "quick" else 1500):
        X = [[rng.choice(grid) for _ in range(rng.randint(1, 6))] for _ in range(rng.randint(1, 4))]
        flat = [v for s in X for v in s]
        mn, mx = min(flat), max(flat)
        Xnew = [[mn, mx, mn, mx], [-100.0, 1000.0, 2.0], [], [mn - 1e-9, mx + 1e-9], [0.0, 10.0, 5.0, -5.0]]
        strategy = rng.choice(["uniform", "quantile"])
        rng_abs = rng.choice([(-np.inf, np.inf), (0.0, 10.0), (-5.0, 5.0), (mn - 0.25, mx + 0.25), (-np.inf, 10.0)])
        check_hist(R, X, Xnew, rng.randint(1, 5), strategy, rng_abs, rng.choice([False, True]))
    # degenerate training data: a single distinct value
    for strategy in ("uniform", "quantile"):
        Xc = [np.array([2.0, 2.0, 2.0])]
        try:
            h = V.HistogramVectorizer(n_components=3, strategy=strategy).fit(Xc)
            row = h.transform([np.array([2.0, 2.0, 1.0, 3.0])])[0]
            R.case(("hist-constant", strategy))
            if row.sum() != 4:
                R.fail("hist/constant-%s-total" % strategy, "constant training data: row total %r != 4" % row.sum(), strategy=strategy)
        except EXC as ex:
            R.case(("hist-constant", strategy))
            R.fail("hist/constant-%s" % strategy, "fit on constant training data [[2,2,2]] raises %s (%s)" % (type(ex).__name__, str(ex)[:60]), strategy=strategy)
    for _ in range(25 if tier == "quick" else 300):
        X = [[rng.choice(grid) + rng.random() * 0.1 for _ in range(rng.randint(2, 6))] for _ in range(rng.randint(2, 4))]
        check_kde(R, X, rng)
    return R.result()


def replay(case):
    R = Recorder("replay")
    if "n_components" in case:
        ar = tuple(float(x) for x in case["absolute_range"])
        check_hist(R, case["X"], case["new"], case["n_components"], case["strategy"], ar, case["append_outlier_bins"])
    else:
        check_kde(R, case["X"], random.Random(0))
    return not any(f["id"] == case["id"] for f in R.failures)
