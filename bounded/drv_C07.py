"""C07 bounded driver: the exact transport plan is a feasible, optimal coupling (BOUNDED; LP + dual certificate)."""
import itertools
import random

import numpy as np
from scipy.optimize import linprog

from .driver import Recorder
from vectorizers.linear_optimal_transport import transport_plan

EXC = (IndexError, KeyError, UnboundLocalError, ZeroDivisionError, TypeError)


def lp_optimum(p, q, C):
    n, m = C.shape
    A = []
    for i in range(n):
        r = np.zeros((n, m)); r[i, :] = 1; A.append(r.ravel())
    for j in range(m):
        r = np.zeros((n, m)); r[:, j] = 1; A.append(r.ravel())
    res = linprog(C.ravel(), A_eq=np.array(A), b_eq=np.concatenate([p, q]), bounds=(0, None), method="highs")
    if res.status != 0:
        return None, None
    duals = res.eqlin.marginals if hasattr(res, "eqlin") else None
    return res.fun, duals


def check(R, p, q, C, tag):
    p, q, C = np.asarray(p, dtype=np.float64), np.asarray(q, dtype=np.float64), np.asarray(C, dtype=np.float64)
    case = dict(p=p.tolist(), q=q.tolist(), cost=C.tolist())
    key = (tag, repr(case))
    f = getattr(transport_plan, "py_func", transport_plan)
    try:
        plan = f(p.copy(), q.copy(), C.copy())
    except ValueError as ex:
        R.case(key)
        R.fail("plan/ValueError", "transport_plan rejects valid probability vectors: %s" % str(ex)[:80], **case)
        return
    except EXC as ex:
        R.case(key)
        R.fail("plan/%s" % type(ex).__name__, "raises %s: %s" % (type(ex).__name__, str(ex)[:80]), **case)
        return
    opt, duals = lp_optimum(p, q, C)
    if len(p) > 30:
        case = dict(p="dirichlet(%d) seed-dependent" % len(p), q="dirichlet(%d)" % len(q), cost="uniform random %dx%d" % C.shape, n=len(p), m=len(q))
    R.case(key if len(p) <= 30 else (tag, len(p), len(q)), nontrivial=len(p) > 1 and len(q) > 1, sample=dict(case, plan=np.round(plan, 6).tolist()) if len(p) == 2 and len(q) == 3 else None)
    if plan.shape != C.shape:
        R.fail("plan/shape", "plan shape %r for cost %r" % (plan.shape, C.shape), **case)
        return
    if (plan < -1e-12).any():
        R.fail("plan/negative", "plan has a negative entry %r" % plan.min(), **case)
    if np.abs(plan.sum(axis=1) - p).max() > 1e-9 or np.abs(plan.sum(axis=0) - q).max() > 1e-9:
        R.fail("plan/marginals", "marginals %r / %r differ from p / q by more than 1e-9" % (plan.sum(axis=1).tolist(), plan.sum(axis=0).tolist()), **case)
        return
    cost = float((plan * C).sum())
    if opt is not None and cost > opt * (1 + 1e-7) + 1e-12:
        R.fail("plan/not-optimal", "plan cost %r exceeds the LP optimum %r" % (cost, opt), **case)
    if duals is not None and opt is not None:
        u, v = duals[:len(p)], duals[len(p):]
        # dual certificate: u_i + v_j <= c_ij and u.p + v.q == optimum  => no plan can be cheaper
        if (u[:, None] + v[None, :] > C + 1e-7).any() or abs(u @ p + v @ q - opt) > 1e-7 * max(1, abs(opt)):
            R.notes.append("LP dual certificate not tight for one case (reference solver issue, not a verdict)")


def masses(k, rng):
    grid = [0, 0, 1, 2, 3, 5, 12]
    while True:
        w = np.array([rng.choice(grid) for _ in range(k)], dtype=np.float64)
        if w.sum() > 0:
            return w / w.sum()


def run(tier, seed):
    R = Recorder("all size pairs (n, m) in [1..5]^2 x seeded masses on a k/12-style grid (zeros, unbalanced, 1e-9 spikes) x costs from {0/1, small integers with ties, "
                 "random, |i-j|, all equal}; thorough adds seeded sizes up to 25x25; feasibility to 1e-9, optimality vs scipy HiGHS LP optimum to 1e-7 relative. "
                 "non-trivial = both sides have more than one point")
    rng = random.Random(seed)
    nprng = np.random.RandomState(seed)
    reps = 3 if tier == "quick" else 25
    for n in range(1, 6):
        for m in range(1, 6):
            for r in range(reps):
                p, q = masses(n, rng), masses(m, rng)
                if r % 5 == 4:
                    p = p + 0.0
                    p[0] += 1e-9
                    p /= p.sum()
                kind = rng.choice(["binary", "ties", "random", "line", "equal"])
                if kind == "binary":
                    C = nprng.randint(0, 2, size=(n, m)).astype(float)
                elif kind == "ties":
                    C = nprng.randint(0, 3, size=(n, m)).astype(float)
                elif kind == "random":
                    C = nprng.rand(n, m)
                elif kind == "line":
                    C = np.abs(np.arange(n)[:, None] - np.arange(m)[None, :]).astype(float)
                else:
                    C = np.ones((n, m))
                check(R, p, q, C, "grid")
    # sizes up to the default max_distribution_size (256): the pivot count of the network simplex grows with the size, so any
    # cap / shortcut in the solver shows only here
    for (n, m) in ([(160, 160), (256, 200)] if tier == "quick" else [(160, 160), (256, 256), (200, 256), (256, 30), (120, 240)]):
        p, q = nprng.dirichlet(np.ones(n)), nprng.dirichlet(np.ones(m))
        check(R, p, q, nprng.rand(n, m), "large")
    if tier != "quick":
        for _ in range(60):
            n, m = rng.randint(6, 25), rng.randint(6, 25)
            p, q = nprng.dirichlet(np.ones(n) * 0.3), nprng.dirichlet(np.ones(m) * 0.3)
            check(R, p, q, nprng.rand(n, m), "large")
    return R.result()


def replay(case):
    R = Recorder("replay")
    if "n" in case:
        return not any(f["id"] == case["id"] for f in run("quick", 0)["failures"])
    check(R, case["p"], case["q"], case["cost"], "replay")
    return not any(f["id"] == case["id"] for f in R.failures)
