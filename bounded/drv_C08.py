"""C08 bounded driver: Wasserstein embeddings depend only on the measure, not on its encoding (BOUNDED, numeric)."""
import random

import numpy as np
import scipy.sparse as sp

from .driver import Recorder
import vectorizers as V
from vectorizers.linear_optimal_transport import lot_vectors_sparse_internal
from scipy.spatial.distance import pdist

EXC = (IndexError, KeyError, UnboundLocalError, ZeroDivisionError, TypeError, ValueError)
TOL = 1e-6


def make_data(rng, n_rows, n_vec, dim):
    W = rng.poisson(1.0, size=(n_rows, n_vec)).astype(np.float64)
    for i in range(n_rows):
        if W[i].sum() == 0:
            W[i, rng.randint(n_vec)] = 1.0
    return W, rng.normal(size=(n_vec, dim))


def embed(est, W, vecs):
    return np.asarray(est.transform(sp.csr_matrix(W), vectors=vecs), dtype=np.float64)


def check_model(R, name, make, rng, tier):
    W, vecs = make_data(rng, 8, 6, 3)
    case = dict(estimator=name, weights=W.tolist(), vectors=np.round(vecs, 6).tolist())
    try:
        est = make().fit(sp.csr_matrix(W), vectors=vecs)
        base = embed(est, W, vecs)
    except EXC as ex:
        R.case((name, "fit"))
        R.fail("%s/fit-%s" % (name, type(ex).__name__), "raises %s: %s" % (type(ex).__name__, str(ex)[:100]), **case)
        return
    def rel(kind, W2, V2, rows=None):
        key = (name, kind, repr(case))
        try:
            out = embed(est, W2, V2)
        except EXC as ex:
            R.case(key)
            R.fail("%s/%s-%s" % (name, kind, type(ex).__name__), "%s re-encoding raises %s: %s" % (kind, type(ex).__name__, str(ex)[:100]), relation=kind, **case)
            return
        want = base if rows is None else base[rows]
        R.case(key, nontrivial=True, sample=dict(estimator=name, relation=kind) if kind == "scale" else None)
        if out.shape != want.shape or np.abs(out - want).max() > TOL * max(1.0, np.abs(want).max()):
            R.fail("%s/%s" % (name, kind), "embedding changes under the '%s' re-encoding of the same measures (max abs diff %.3g)" % (kind, np.abs(out - want).max() if out.shape == want.shape else -1), relation=kind, **case)
    # rescaling the row of weights
    s = np.array([0.5, 3.0, 1e6, 1.0, 2.0, 7.0, 1e-3, 10.0])
    rel("scale", W * s[:, None], vecs)
    # listing support points of zero weight
    extra = rng.normal(size=(2, vecs.shape[1]))
    rel("pad", np.hstack([W, np.zeros((W.shape[0], 2))]), np.vstack([vecs, extra]))
    # permuting support points together with their vectors
    perm = rng.permutation(W.shape[1])
    rel("permute", W[:, perm], vecs[perm])
    # splitting a support point into duplicates that share its mass
    j = int(rng.randint(W.shape[1]))
    W2 = np.hstack([W, W[:, [j]] * 0.25])
    W2[:, j] = W[:, j] * 0.75
    rel("split", W2, np.vstack([vecs, vecs[[j]]]))
    # equal distributions get equal embeddings
    Wd = np.vstack([W, W[[2]] * 4.0])
    try:
        out = embed(est, Wd, vecs)
        R.case((name, "equal", repr(case)))
        if np.abs(out[-1] - out[2]).max() > TOL:
            R.fail("%s/equal" % name, "equal distributions (row 2 and a scaled copy) get different embeddings", relation="equal", **case)
    except EXC:
        pass
    # memory_size / block sizes at transform time
    # "100" / "200" / "300" bytes: 1-4 rows per block for these reference sizes, so that transform really runs several blocks
    # (with "1k" all 8 rows fit in one block: a block-relative addressing error stayed invisible - seeded change S-C08-d)
    for mem in ("100", "200", "300", "1k", "10k", "2G"):
        try:
            est.memory_size = mem
            out = embed(est, W, vecs)
            R.case((name, "memory", mem, repr(case)))
            if np.abs(out - base).max() > TOL:
                R.fail("%s/memory_size" % name, "embedding depends on memory_size=%s at transform time" % mem, relation="memory_size", **case)
        except EXC as ex:
            R.fail("%s/memory_size-%s" % (name, type(ex).__name__), "memory_size=%s raises %s" % (mem, type(ex).__name__), relation="memory_size", **case)
    est.memory_size = "2G"


def check_formats_and_rank(R, rng):
    W, vecs = make_data(rng, 7, 5, 3)
    case = dict(weights=W.tolist(), vectors=np.round(vecs, 6).tolist())
    ref_d = np.full(4, 0.25)
    ref_v = rng.normal(size=(4, 3))
    kw = dict(n_components=12, random_state=0, metric="euclidean")
    try:
        a = V.WassersteinVectorizer(**kw).fit(sp.csr_matrix(W), vectors=vecs, reference_distribution=ref_d, reference_vectors=ref_v)
        ea = np.asarray(a.transform(sp.csr_matrix(W), vectors=vecs))
        lil_w = [W[i][W[i] > 0] for i in range(W.shape[0])]
        lil_v = [vecs[W[i] > 0] for i in range(W.shape[0])]
        b = V.WassersteinVectorizer(input_method="lil", **kw).fit(lil_w, vectors=lil_v, reference_distribution=ref_d, reference_vectors=ref_v)
        eb = np.asarray(b.transform(lil_w, vectors=lil_v))
        R.case(("formats",), sample=dict(case, relation="spmatrix vs lil"))
        da, db = pdist(ea), pdist(eb)
        if not np.allclose(da, db, rtol=1e-5, atol=1e-7):
            R.fail("formats/spmatrix-vs-lil", "pairwise distances differ between sparse-matrix and list input of the same data (max %.3g)" % np.abs(da - db).max(), **case)
        # full-rank n_components: distances equal those between the raw LOT vectors
        X = sp.csr_matrix(W)
        Xn = sp.csr_matrix(W / W.sum(axis=1, keepdims=True))
        f = getattr(lot_vectors_sparse_internal, "py_func", lot_vectors_sparse_internal)
        from vectorizers.linear_optimal_transport import named_distances
        raw = f(Xn.indptr, Xn.indices, Xn.data.astype(np.float64), vecs, a.reference_vectors_, a.reference_distribution_, metric=named_distances["euclidean"],
                max_distribution_size=256, chunk_size=256, spherical_vectors=False)
        dr = pdist(raw)
        R.case(("full-rank",))
        if not np.allclose(da, dr, rtol=1e-5, atol=1e-6):
            R.fail("fullrank/distances", "with full-rank n_components the embedding's pairwise distances differ from the raw LOT vectors' (max %.3g)" % np.abs(da - dr).max(), **case)
    except EXC as ex:
        R.fail("formats/%s" % type(ex).__name__, "raises %s: %s" % (type(ex).__name__, str(ex)[:120]), **case)


def run(tier, seed):
    R = Recorder("seeded collections of 8 distributions over 6 Gaussian vectors (generic: unique optimal plans) for WassersteinVectorizer {cosine, euclidean} x "
                 "{LOT_exact, LOT_sinkhorn}, SinkhornVectorizer; transform of re-encodings (row scale incl. 1e6 / 1e-3, zero-weight padding, permutation with vectors, "
                 "splitting a point) vs the original, equal distributions, memory_size {100, 200, 300 bytes = several blocks of 1-4 rows, 1k, 10k, 2G}; sparse vs list input; full-rank distances vs raw LOT vectors. tol 1e-6. "
                 "non-trivial = relation evaluated")
    reps = 2 if tier == "quick" else 12
    for r in range(reps):
        rng = np.random.RandomState(seed * 100 + r)
        for name, make in (("WassersteinCos", lambda: V.WassersteinVectorizer(n_components=5, random_state=1)),
                           ("WassersteinEuc", lambda: V.WassersteinVectorizer(n_components=5, random_state=1, metric="euclidean")),
                           ("WassersteinSinkhornLOT", lambda: V.WassersteinVectorizer(n_components=5, random_state=1, method="LOT_sinkhorn", metric="euclidean", sinkhorn_chunk_size=3)),
                           ("Sinkhorn", lambda: V.SinkhornVectorizer(n_components=5, random_state=1, metric="euclidean", chunk_size=3))):
            check_model(R, name, make, rng, tier)
        check_formats_and_rank(R, rng)
    return R.result()


def replay(case):
    return not any(f["id"] == case["id"] for f in run("quick", 0)["failures"])
