"""C06 bounded driver: n-gram / skip-gram / edge-list matrices hold exact counts; '+' merges models (BOUNDED)."""
import itertools
import random

import numpy as np

from .driver import Recorder
import vectorizers as V

EXC = (IndexError, KeyError, ValueError, UnboundLocalError, ZeroDivisionError, TypeError)


def grams(seq, n, behaviour):
    if behaviour == "exact":
        return [tuple(seq[i:i + n]) for i in range(len(seq) - n + 1)]
    out = []
    for i in range(len(seq)):
        for j in range(1, n + 1):
            if i + j <= len(seq):
                out.append(tuple(seq[i:i + j]))
    return out


def check_ngram(R, X, n, behaviour, Xnew):
    case = dict(X=X, ngram_size=n, ngram_behaviour=behaviour)
    key = ("ngram", repr(X), n, behaviour)
    try:
        v = V.NgramVectorizer(ngram_size=n, ngram_behaviour=behaviour)
        M = v.fit_transform([list(s) for s in X]).toarray()
        Mt = v.transform([list(s) for s in Xnew]).toarray()
    except ValueError:
        return
    except EXC as ex:
        R.case(key)
        R.fail("ngram/%s" % type(ex).__name__, "raises %s: %s" % (type(ex).__name__, str(ex)[:100]), **case)
        return
    R.case(key, nontrivial=M.any(), sample=dict(case, matrix=M.tolist()) if M.any() else None)
    cols = v.column_label_dictionary_
    vocab = set()
    kept_tokens = set(v._token_dictionary_)
    for data, mat, what in ((X, M, "fit_transform"), (Xnew, Mt, "transform")):
        for i, seq in enumerate(data):
            cnt = {}
            seq = [t for t in seq if t in kept_tokens]  # unseen tokens are deleted: neighbours become adjacent
            for g in grams(list(seq), n, behaviour):
                g1 = g[0] if len(g) == 1 and n == 1 else g
                cnt[g1] = cnt.get(g1, 0) + 1
            for label, j in cols.items():
                lab = label if n > 1 or isinstance(label, tuple) else label
                want = cnt.get(lab, cnt.get((lab,), 0)) if not isinstance(lab, tuple) else cnt.get(lab, 0)
                if mat[i, j] != want:
                    if behaviour == "subgrams" and n >= 2 and isinstance(label, tuple) and len(label) == 1 and mat[i, j] == 0:
                        # the known defect: unigram columns of a subgrams model are never counted (all other cells are still checked)
                        R.fail("ngram/subgrams-unigram-not-counted", "%s entry (doc %d, unigram %r) = 0 in a 'subgrams' model, the unigram occurs %d times" % (what, i, label, want), **dict(case, new=Xnew))
                        continue
                    R.fail("ngram/%s-count" % what, "%s entry (doc %d, n-gram %r) = %r, the n-gram occurs %d times" % (what, i, label, mat[i, j], want), **dict(case, new=Xnew))
                    return
        if what == "fit_transform":
            seen = set()
            for seq in X:
                for g in grams(list(seq), n, behaviour):
                    seen.add(g[0] if (len(g) == 1 and n == 1) else g)
            labs = set(cols)
            norm = {(l if isinstance(l, tuple) or n == 1 else l) for l in labs}
            if n == 1 and norm != seen:
                R.fail("ngram/columns", "columns %r, n-grams present %r" % (sorted(map(str, norm)), sorted(map(str, seen))), **case)
                return


def check_add(R, A, B, Xnew):
    case = dict(A=A, B=B)
    key = ("add", repr(A), repr(B))
    try:
        va = V.NgramVectorizer().fit([list(s) for s in A])
        vb = V.NgramVectorizer().fit([list(s) for s in B])
        snap = lambda v: (dict(v.column_index_dictionary_), dict(v.column_label_dictionary_), v._train_matrix.toarray().tolist(), list(v._token_frequencies_))
        sa, sb = snap(va), snap(vb)
        va + vb           # a first sum: the operands must survive it unchanged ...
        vab = va + vb     # ... so that a second sum with the same operands is the same model
        if snap(va) != sa or snap(vb) != sb:
            R.case(key)
            R.fail("add/operand-mutated", "a + b modified one of its operands (its dictionaries / training matrix changed)", **case)
            return
        vc = V.NgramVectorizer().fit([list(s) for s in A + B])
        M1, M2 = vab._train_matrix.toarray(), vc._train_matrix.toarray()
        T1, T2 = vab.transform([list(s) for s in Xnew]).toarray(), vc.transform([list(s) for s in Xnew]).toarray()
    except ValueError:
        return
    except EXC as ex:
        R.case(key)
        R.fail("add/%s" % type(ex).__name__, "raises %s: %s" % (type(ex).__name__, str(ex)[:100]), **case)
        return
    R.case(key, nontrivial=True, sample=dict(case, columns=sorted(vab.column_label_dictionary_)))
    if set(vab.column_label_dictionary_) != set(vc.column_label_dictionary_):
        R.fail("add/columns", "merged model columns %r, model fitted on the concatenation %r" % (sorted(vab.column_label_dictionary_), sorted(vc.column_label_dictionary_)), **case)
        return
    perm = [vab.column_label_dictionary_[t] for t in sorted(vc.column_label_dictionary_, key=lambda t: vc.column_label_dictionary_[t])]
    if M1.shape != M2.shape or not np.array_equal(M1[:, perm], M2):
        R.fail("add/train-matrix", "merged training matrix differs (up to column order) from the one fitted on the concatenated corpora", **case)
    elif not np.array_equal(T1[:, perm], T2):
        R.fail("add/transform", "(a+b).transform differs from the concatenation model's transform: %r vs %r" % (T1[:, perm].tolist(), T2.tolist()), **dict(case, new=Xnew))
    if any(vab.column_index_dictionary_[j] != t for t, j in vab.column_label_dictionary_.items()):
        R.fail("add/inverse", "column_index_dictionary_ is not the inverse of column_label_dictionary_", **case)


def check_skipgram(R, X, radius, kernel):
    case = dict(X=X, window_radius=radius, kernel_function=kernel)
    key = ("skip", repr(X), radius, kernel)
    try:
        v = V.SkipgramVectorizer(window_radius=radius, kernel_function=kernel)
        M = v.fit_transform([list(s) for s in X]).toarray()
    except ValueError:
        return
    except EXC as ex:
        R.case(key)
        R.fail("skipgram/%s" % type(ex).__name__, "raises %s: %s" % (type(ex).__name__, str(ex)[:100]), **case)
        return
    want = {}
    for i, seq in enumerate(X):
        for p, a in enumerate(seq):
            for j in range(1, radius + 1):
                if p + j < len(seq):
                    w = 1.0 if kernel == "flat" else 1.0 / j
                    want[(i, (a, seq[p + j]))] = want.get((i, (a, seq[p + j])), 0.0) + w
    R.case(key, nontrivial=bool(want), sample=dict(case, columns=[list(k) for k in v.column_label_dictionary_]) if want else None)
    cols = v.column_label_dictionary_
    if set(cols) != {k[1] for k in want}:
        R.fail("skipgram/columns", "columns %r, pairs present %r" % (sorted(cols), sorted({k[1] for k in want})), **case)
        return
    for i in range(len(X)):
        for pair, j in cols.items():
            if abs(M[i, j] - want.get((i, pair), 0.0)) > 1e-5:
                R.fail("skipgram/weight", "entry (doc %d, %r) = %r, summed kernel weight is %r" % (i, pair, M[i, j], want.get((i, pair), 0.0)), **case)
                return


def check_edges(R, edges):
    case = dict(edges=edges)
    key = ("edges", repr(edges))
    try:
        v = V.EdgeListVectorizer()
        M = v.fit_transform(edges).toarray()
        Mt = v.transform(edges).toarray()
    except EXC as ex:
        R.case(key)
        R.fail("edges/%s" % type(ex).__name__, "raises %s: %s" % (type(ex).__name__, str(ex)[:100]), **case)
        return
    want = {}
    for r, c, w in edges:
        want[(r, c)] = want.get((r, c), 0.0) + w
    R.case(key, nontrivial=len(want) < len(edges), sample=dict(case, matrix=M.tolist()))
    for mat, what in ((M, "fit_transform"), (Mt, "transform")):
        for r, i in v.row_label_dictionary_.items():
            for c, j in v.column_label_dictionary_.items():
                if abs(mat[i, j] - want.get((r, c), 0.0)) > 1e-9:
                    R.fail("edges/%s-sum" % what, "%s entry (%r, %r) = %r, edge values sum to %r" % (what, r, c, mat[i, j], want.get((r, c), 0.0)), **case)
                    return


def run(tier, seed):
    R = Recorder("NgramVectorizer: corpora of <= 3 documents of length <= 4 over {a,b,c} x n in 1..3 x exact/subgrams, fit_transform and transform on unseen "
                 "data, against a pure-python count; '+' on pairs of unigram models vs a model fitted on the concatenation; SkipgramVectorizer radius 1..3 "
                 "flat/harmonic; EdgeListVectorizer with duplicate edges. non-trivial = non-empty matrix / duplicate edges")
    rng = random.Random(seed)
    seqs = [list(t) for n in range(0, 5) for t in itertools.product("abc", repeat=n)]
    k = 60 if tier == "quick" else 600
    Xnew = [["a", "z", "b", "a"], [], ["c", "c", "c"], ["b"]]
    for _ in range(k):
        X = [rng.choice(seqs) for _ in range(rng.randint(1, 3))]
        if not any(X):
            continue
        check_ngram(R, X, rng.choice([1, 2, 3]), rng.choice(["exact", "subgrams"]), Xnew)
        check_skipgram(R, X, rng.choice([1, 2, 3]), rng.choice(["flat", "harmonic"]))
    for _ in range(k // 2):
        A = [rng.choice(seqs) for _ in range(rng.randint(1, 2))]
        B = [[rng.choice("bcd") for _ in range(rng.randint(0, 4))] for _ in range(rng.randint(1, 2))]
        if any(A) and any(B):
            check_add(R, A, B, [["a", "d", "b"], ["d", "d"], ["c", "z"]])
    for _ in range(k // 2):
        edges = [(rng.choice(["r1", "r2", "r3"]), rng.choice(["c1", "c2"]), float(rng.choice([1, 2, 0.5]))) for _ in range(rng.randint(1, 7))]
        check_edges(R, edges)
    return R.result()


def replay(case):
    R = Recorder("replay")
    if "edges" in case:
        check_edges(R, [tuple(e) for e in case["edges"]])
    elif "A" in case:
        check_add(R, case["A"], case["B"], case.get("new") or [["a", "d", "b"], ["d", "d"], ["c", "z"]])
    elif "window_radius" in case:
        check_skipgram(R, case["X"], case["window_radius"], case["kernel_function"])
    else:
        check_ngram(R, case["X"], case["ngram_size"], case["ngram_behaviour"], case.get("new") or [["a", "z", "b", "a"], [], ["c", "c", "c"], ["b"]])
    return not any(f["id"] == case["id"] for f in R.failures)
