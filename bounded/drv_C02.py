"""C02 bounded driver: fit returns self and fit_transform(X) == fit(X).transform(X) (BOUNDED)."""
import copy
import random

import numpy as np
import scipy.sparse as sp

from .driver import Recorder
from . import estimators as ES
from . import cooc_common as CC
import vectorizers as V

EXC = (IndexError, KeyError, ValueError, UnboundLocalError, ZeroDivisionError, TypeError, AssertionError, AttributeError)


def check(R, name, make, X, fit_kw, tr_kw, exact, tol=1e-6):
    key = (name,)
    try:
        e1 = make()
        a = e1.fit_transform(copy.deepcopy(X), **copy.deepcopy(fit_kw))
        e2 = make()
        r = e2.fit(copy.deepcopy(X), **copy.deepcopy(fit_kw))
        if r is not e2:
            R.case(key)
            R.fail("%s/fit-returns" % name, "fit returned %r instead of the estimator" % (type(r).__name__,), estimator=name)
            return
        b = e2.transform(copy.deepcopy(X), **copy.deepcopy(tr_kw))
    except OverflowError:
        R.notes.append("%s skipped interpreted (OverflowError in murmurhash, interpreter artefact)" % name)
        return
    except EXC as ex:
        R.case(key)
        R.fail("%s/%s" % (name, type(ex).__name__), "raises %s: %s" % (type(ex).__name__, str(ex)[:120]), estimator=name)
        return
    R.case(key, nontrivial=True, sample=dict(estimator=name, shape=list(a.shape) if hasattr(a, "shape") else [len(a)]))
    if not ES.rows_equal(a, b, exact, tol):
        diff = ""
        try:
            diff = " (max abs diff %.3g)" % np.abs(ES.dense(a) - ES.dense(b)).max()
        except Exception:
            pass
        R.fail("%s/differs" % name, "fit_transform(X) != fit(X).transform(X)%s" % diff, estimator=name)


def run(tier, seed):
    R = Recorder("every estimator configuration of the catalogue plus a parameter grid for the co-occurrence family (orientation, kernel, window function, "
                 "mask, n_iter, epsilon), Wasserstein (metric x input_method x memory_size x method), BPE return types, Ngram mask/n, "
                 "CountFeatureCompression identity case: fit_transform vs fit().transform, exact for counts/encodings, 1e-6 for float paths")
    rng = random.Random(seed)
    for e in ES.catalogue():
        check(R, e.name, e.make, e.train, e.fit_kw, ES.variant_kw(e, "train") if getattr(e, "variant_kw", None) else e.tr_kw, e.exact)
    # co-occurrence grid
    X = [["a", "b", "a", "c", "b"], ["b", "c", "c", "a"], ["a"], [], ["c", "a", "b", "b"]]
    cfgs = rng.sample(CC.CONFIGS, 25 if tier == "quick" else 300)
    for i, cfg in enumerate(cfgs):
        for extra in ({}, {"n_iter": 1}, {"n_iter": 2, "epsilon": 0.05}, {"min_occurrences": 3, "mask_string": "[M]"}, {"min_occurrences": 3, "mask_string": "[M]", "nullify_mask": True},
                      {"n_threads": 2, "coo_initial_memory": "1k"}):
            if tier == "quick" and rng.random() < 0.6:
                continue
            kw = dict(cfg, **extra)
            if isinstance(kw.get("window_orientations"), list):
                n = len(kw["window_orientations"])
                for k in ("kernel_functions", "window_functions"):
                    if isinstance(kw.get(k), str):
                        kw[k] = [kw[k]] * n
            check(R, "TokenCooc[%d:%s]" % (i, ",".join(sorted(extra))), lambda kw=kw: V.TokenCooccurrenceVectorizer(**kw), X, {}, {}, False, 1e-5)
    Xt = [[(t, float(i) * 1.5) for i, t in enumerate(s)] for s in X]
    for kw in (dict(window_radii=2, kernel_args={"delta": 1.0}), dict(window_radii=2, kernel_functions="geometric", kernel_args={"delta": 2.0, "power": 0.8}, n_iter=1),
               dict(window_radii=1, mask_string="[M]", min_occurrences=3)):
        check(R, "TimedCooc%r" % sorted(kw), lambda kw=kw: V.TimedTokenCooccurrenceVectorizer(**kw), Xt, {}, {}, False, 1e-5)
    for kw in (dict(ngram_size=2, window_radii=2), dict(ngram_size=2, window_radii=1, n_iter=1), dict(ngram_size=1, window_radii=2, window_orientations="after")):
        check(R, "NgramCooc%r" % sorted(kw.items()), lambda kw=kw: V.NgramCooccurrenceVectorizer(**kw), X, {}, {}, False, 1e-5)
    Xm = [[["a", "b"], ["a"], ["c", "b"]], [["b"], ["c", "c"], ["a", "a"]]]
    for kw in (dict(window_radii=1), dict(window_radii=2, n_iter=1), dict(window_radii=1, kernel_functions="geometric")):
        check(R, "MultiSetCooc%r" % sorted(kw.items()), lambda kw=kw: V.MultiSetCooccurrenceVectorizer(**kw), Xm, {}, {}, False, 1e-5)
    # Ngram / BPE / Skipgram variations
    T = ES.TOK
    for kw in (dict(ngram_size=2, mask_string="[M]", min_occurrences=3), dict(ngram_size=1, mask_string="[M]", min_occurrences=2), dict(ngram_size=3, ngram_behaviour="subgrams"),
               dict(ngram_size=2, max_document_occurrences=2), dict(token_dictionary={"a": 0, "c": 1})):
        check(R, "Ngram%r" % sorted(kw.items()), lambda kw=kw: V.NgramVectorizer(**kw), T, {}, {}, True)
    for kw in (dict(window_radius=1), dict(window_radius=3, kernel_function="harmonic"), dict(window_radius=2, window_function="variable")):
        check(R, "Skipgram%r" % sorted(kw.items()), lambda kw=kw: V.SkipgramVectorizer(**kw), T, {}, {}, False, 1e-6)
    for vocab in (1, 2, 3, 10):
        for rt in ("sequences", "tokens", "matrix"):
            for strings in (ES.STR, ["aaa"], ["abab", "ab", "b"], ["aaaa", "abab", "a", ""]):
                check(R, "BPE[%d,%s,%r]" % (vocab, rt, strings), lambda: V.BytePairEncodingVectorizer(max_vocab_size=vocab, return_type=rt, min_token_occurrence=2), strings, {}, {}, True)
    # Wasserstein grid
    Xw = ES.catalogue()[[e.name for e in ES.catalogue()].index("WassersteinCos")]
    for metric in ("cosine", "euclidean", "manhattan", "chebyshev"):
        for mem in ("1k", "2G"):
            for method in ("LOT_exact", "LOT_sinkhorn", "HeuristicLinearAlgebra"):
                kw = dict(n_components=4, random_state=1, metric=metric, memory_size=mem, method=method, sinkhorn_chunk_size=3)
                check(R, "Wasserstein[%s,%s,%s]" % (metric, mem, method), lambda kw=kw: V.WassersteinVectorizer(**kw), Xw.train, Xw.fit_kw, Xw.fit_kw, False, 1e-6)
        lil = ES.catalogue()[[e.name for e in ES.catalogue()].index("WassersteinLil")]
        for mem in ("10", "1k", "2G"):
            kw = dict(n_components=4, random_state=1, metric=metric, memory_size=mem, input_method="lil")
            check(R, "WassersteinLil[%s,%s]" % (metric, mem), lambda kw=kw: V.WassersteinVectorizer(**kw), lil.train, lil.fit_kw, lil.variant_kw["train"], False, 1e-6)
        check(R, "Sinkhorn[%s]" % metric, lambda: V.SinkhornVectorizer(n_components=4, random_state=1, metric=metric, chunk_size=3, memory_size="1k"), Xw.train, Xw.fit_kw, Xw.fit_kw, False, 1e-6)
    return R.result()


def replay(case):
    res = run("quick", 0)
    return not any(f["id"] == case["id"] for f in res["failures"])
