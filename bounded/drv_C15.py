"""C15 bounded driver: labelled-tree co-occurrence counts kernel-weighted walks between labels (BOUNDED)."""
import itertools
import random

import numpy as np
import scipy.sparse as sp

from .driver import Recorder
import vectorizers as V

EXC = (IndexError, KeyError, UnboundLocalError, ZeroDivisionError, TypeError, ValueError)


def forests(n):
    """All rooted forests on nodes 0..n-1 with parent[i] < i or None (every shape up to relabelling)."""
    for parents in itertools.product(*[[None] + list(range(i)) for i in range(n)]):
        yield parents


def adjacency(parents):
    n = len(parents)
    A = np.zeros((n, n))
    for child, p in enumerate(parents):
        if p is not None:
            A[p, child] = 1.0  # edge parent -> child
    return A


def weight(kernel, k, power=0.9, offset=0):
    if k <= offset:       # the first `offset` distances carry no weight
        return 0.0
    return 1.0 if kernel == "flat" else (1.0 / k if kernel == "harmonic" else power ** k)


STORES = {"csr-float64": (sp.csr_matrix, np.float64), "lil-float64": (sp.lil_matrix, np.float64), "csr-int64": (sp.csr_matrix, np.int64),
          "lil-int64": (sp.lil_matrix, np.int64), "lil-int32": (sp.lil_matrix, np.int32), "lil-bool": (sp.lil_matrix, np.bool_)}


def stored(A, store):
    """The same 0/1 adjacency matrix in another sparse format / number type (the counts may not depend on it)."""
    ctor, dt = STORES[store]
    return ctor(np.asarray(A).astype(dt))


def reference(trees, labels_kept, radius, kernel, orientation, removed=(), offset=0):
    idx = {l: i for i, l in enumerate(labels_kept)}
    n = len(idx)
    C = np.zeros((n, n))
    for A, labels in trees:
        A = A.copy()
        m = A.shape[0]
        # removing a label reconnects each removed node's parent to its children
        for u in range(m):
            if labels[u] in removed:
                preds = [p for p in range(m) if A[p, u] and p != u]
                succs = [c for c in range(m) if A[u, c] and c != u]
                for p in preds:
                    for c in succs:
                        A[p, c] = 1.0
                A[u, :] = 0
                A[:, u] = 0
        W = np.zeros_like(A)
        P = np.eye(m)
        for k in range(1, radius + 1):
            P = P @ A
            W += weight(kernel, k, offset=offset) * P
        for u in range(m):
            for v in range(m):
                if W[u, v] and labels[u] in idx and labels[v] in idx:
                    C[idx[labels[u]], idx[labels[v]]] += W[u, v]
    if orientation == "after":
        return C
    if orientation == "before":
        return C.T
    if orientation == "symmetric":
        return C + C.T
    return np.hstack([C.T, C])


def check(R, trees, radius, kernel, orientation, minocc=None, offset=0, store="csr-float64"):
    case = dict(trees=[(A.tolist(), list(l)) for A, l in trees], window_radius=radius, kernel_function=kernel, window_orientation=orientation, min_occurrences=minocc,
                offset=offset, store=store)
    key = ("tree", repr(case))
    counts = {}
    for _, l in trees:
        for x in l:
            counts[x] = counts.get(x, 0) + 1
    kept = sorted(x for x, c in counts.items() if minocc is None or c >= minocc)
    removed = set(counts) - set(kept)
    if not kept:
        return
    try:
        v = V.LabelledTreeCooccurrenceVectorizer(window_radius=radius, kernel_function=kernel, window_orientation=orientation, min_occurrences=minocc,
                                                 **({"kernel_args": {"offset": offset}} if offset else {}))
        M = np.asarray(v.fit_transform([(stored(A, store), np.array(l)) for A, l in trees]).todense(), dtype=np.float64)
    except EXC as ex:
        R.case(key)
        R.fail("tree/%s" % type(ex).__name__, "raises %s: %s" % (type(ex).__name__, str(ex)[:100]), **case)
        return
    want = reference(trees, kept, radius, kernel, orientation, removed, offset)
    R.case(key, nontrivial=bool(want.any()), sample=dict(case, matrix=M.tolist()) if want.any() else None)
    lab = [v.token_index_dictionary_[i] for i in range(len(v.token_index_dictionary_))]
    if lab != kept:
        R.fail("tree/labels", "labels %r, expected %r" % (lab, kept), **case)
    elif M.shape != want.shape or not np.allclose(M, want, rtol=1e-6, atol=1e-9):
        R.fail("tree/walk-counts", "matrix %r, kernel-weighted walk counts give %r" % (np.round(M, 4).tolist(), np.round(want, 4).tolist()), **case)


def run(tier, seed):
    R = Recorder("all rooted forests on <= %d nodes (exhaustive shapes) x seeded labelings over 3 labels x radius 1..4 x kernel flat/harmonic/geometric (kernel offset 0..2) x four "
                 "orientations x adjacency storage (csr/lil x float64/int64/int32/bool), plus pruning (min_occurrences) with edge contraction; path graphs vs TokenCooccurrenceVectorizer. non-trivial = some walk counted")
    rng = random.Random(seed)
    nmax = 4 if tier == "quick" else 5
    R.rule = R.rule % nmax
    shapes = [p for n in range(1, nmax + 1) for p in forests(n)]
    R.scope = dict(forest_shapes=len(shapes))
    for parents in shapes:
        n = len(parents)
        reps = 2 if tier == "quick" else 6
        for _ in range(reps):
            labels = [rng.choice("xyz") for _ in range(n)]
            trees = [(adjacency(parents), labels)]
            if rng.random() < 0.3:
                p2 = rng.choice(shapes)
                trees.append((adjacency(p2), [rng.choice("xyz") for _ in range(len(p2))]))
            check(R, trees, rng.choice([1, 2, 3]), rng.choice(["flat", "harmonic", "geometric"]), rng.choice(["before", "after", "symmetric", "directional"]),
                  rng.choice([None, None, 2]))
            # the same forest with a kernel offset (leading zero weights) and the adjacency matrix in another format / number type
            check(R, trees, rng.choice([2, 3, 4]), rng.choice(["flat", "harmonic", "geometric"]), rng.choice(["before", "after", "symmetric", "directional"]),
                  None, offset=rng.choice([0, 1, 1, 2]), store=rng.choice(sorted(STORES)))
    # path graphs coincide with TokenCooccurrenceVectorizer
    for _ in range(10 if tier == "quick" else 100):
        seq = [rng.choice("xyz") for _ in range(rng.randint(2, 6))]
        n = len(seq)
        A = np.zeros((n, n))
        for i in range(n - 1):
            A[i, i + 1] = 1.0
        r = rng.choice([1, 2, 3])
        try:
            T = np.asarray(V.LabelledTreeCooccurrenceVectorizer(window_radius=r, window_orientation="after").fit_transform([(sp.csr_matrix(A), np.array(seq))]).todense())
            K = np.asarray(V.TokenCooccurrenceVectorizer(window_radii=r, window_orientations="after", normalize_windows=False).fit_transform([seq]).todense())
            R.case(("path", tuple(seq), r))
            if T.shape != K.shape or not np.allclose(T, K, rtol=1e-5):
                R.fail("tree/path-vs-token", "path graph %r radius %d: tree matrix %r, token matrix %r" % (seq, r, T.tolist(), K.tolist()), sequence=seq, window_radius=r)
        except EXC as ex:
            R.fail("tree/path-%s" % type(ex).__name__, "raises %s" % type(ex).__name__, sequence=seq, window_radius=r)
    R.exhaustive = False
    return R.result()


def replay(case):
    R = Recorder("replay")
    if "trees" in case:
        check(R, [(np.array(A), l) for A, l in case["trees"]], case["window_radius"], case["kernel_function"], case["window_orientation"], case["min_occurrences"],
              case.get("offset", 0), case.get("store", "csr-float64"))
        return not any(f["id"] == case["id"] for f in R.failures)
    return not any(f["id"] == case["id"] for f in run("quick", 0)["failures"])
