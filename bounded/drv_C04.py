"""C04 bounded driver: the co-occurrence accumulator conserves events for every buffer size / threshold,
and API results do not depend on n_threads, coo_initial_memory or data volume (BOUNDED)."""
import math
import random

import numpy as np

from .driver import Recorder
from . import cspec
from . import cooc_common as CC
import contracts as CT
import vectorizers.coo_utils as CU
from vectorizers import TokenCooccurrenceVectorizer, MultiSetCooccurrenceVectorizer, TimedTokenCooccurrenceVectorizer, NgramCooccurrenceVectorizer

_CONTRACTS, _MACROS = CT.load_all()
_WF = cspec.Contract(dict(requires=["WF(coo)"]), _MACROS)


def fresh(N):
    return CU.CooArray(np.zeros(N, dtype=np.int32), np.zeros(N, dtype=np.int32), np.zeros(N, dtype=np.float32), np.zeros(N, dtype=np.int64),
                       np.zeros(1, dtype=np.int64), np.zeros(2 * int(np.ceil(np.log2(N))), dtype=np.int64), np.zeros(1, dtype=np.int64))


def pf(f):
    return getattr(f, "py_func", f)


def _cell(K):
    """The (row, col) cell a test key stands for: keys are 64-bit (low part k < 2**32, high part hi)."""
    k, hi = K & 0xFFFFFFFF, K >> 32
    return k // 7, k % 7 + 7 * hi


def run_sequence(N, limit, keys, check_wf=True):
    """Append the events one by one to a fresh accumulator of N slots with COO_QUICKSORT_LIMIT=limit.
    Returns None or a failure description.  Checks the coo_append contract at every step and conservation at the end."""
    saved = CU.COO_QUICKSORT_LIMIT
    CU.COO_QUICKSORT_LIMIT = limit
    try:
        coo = fresh(N)
        ref = {}
        for step, k in enumerate(keys):
            val = 1.0 + (step % 3)
            try:
                coo = pf(CU.coo_append)(coo, (_cell(k)[0], _cell(k)[1], np.float32(val), k))
            except IndexError as ex:
                return "IndexError at append #%d: %s" % (step, str(ex)[:80])
            except OverflowError as ex:
                # (interpreted numpy refuses what compiled code wraps silently: a 64-bit key does not fit where it is being stored)
                return "OverflowError at append #%d (key %d): %s" % (step, k, str(ex)[:80])
            ref[k] = ref.get(k, 0.0) + val
            if check_wf:
                if not _WF.check_requires(dict(coo=coo)):
                    return "representation invariant WF broken after append #%d (ind=%d, N=%d, min=%r, depth=%d)" % (
                        step, coo.ind[0], coo.key.shape[0], coo.min.tolist(), coo.depth[0])
                if coo.ind[0] > coo.key.shape[0] - 2:
                    return "fewer than two free slots after append #%d (ind=%d, N=%d)" % (step, coo.ind[0], coo.key.shape[0])
        try:
            pf(CU.coo_sum_duplicates)(coo)
            pf(CU.merge_all_sum_duplicates)(coo)
        except (IndexError, OverflowError) as ex:
            return "%s in the final merge: %s" % (type(ex).__name__, str(ex)[:80])
        got = {}
        n = int(coo.ind[0])
        for i in range(n):
            kk = int(coo.key[i])
            got[kk] = got.get(kk, 0.0) + float(coo.val[i])
            if (int(coo.row[i]), int(coo.col[i])) != _cell(kk):
                return "entry %d has key %d but (row, col) = (%d, %d)" % (i, kk, coo.row[i], coo.col[i])
        if set(got) != set(ref) or any(abs(got[k] - ref[k]) > 1e-4 * max(1, ref[k]) for k in ref):
            lost = {k: (ref.get(k), got.get(k)) for k in set(ref) | set(got) if abs(got.get(k, 0) - ref.get(k, 0)) > 1e-4}
            return "events not conserved (key: (expected, got)) %r" % dict(list(lost.items())[:4])
        return None
    finally:
        CU.COO_QUICKSORT_LIMIT = saved


def api(cls, X, limit=None, **kw):
    saved = CU.COO_QUICKSORT_LIMIT
    if limit is not None:
        CU.COO_QUICKSORT_LIMIT = limit
    try:
        v = cls(**kw)
        return v, np.asarray(v.fit_transform(X).todense(), dtype=np.float64)
    finally:
        CU.COO_QUICKSORT_LIMIT = saved


def run(tier, seed):
    R = Recorder("(A) accumulator histories: fresh CooArray of N in 2..24 slots x COO_QUICKSORT_LIMIT in {1,2,3,4,8,65536} (set on the module, interpreted) x "
                 "seeded key sequences of up to 4N+10 appends over 1..9 distinct keys; WF + two-free-slots checked after every append, conservation at the end. "
                 "(B) API: n_threads x coo_initial_memory x LIMIT x {fit_transform, transform on 8x the data} for the token / timed / n-gram / multiset vectorizers "
                 "against n_threads=1 with default memory. non-trivial = at least one compaction happened")
    rng = random.Random(seed)
    sizes = list(range(2, 13)) + [16, 20, 24]
    limits = [1, 2, 3, 4, 8, 65536]
    reps = 6 if tier == "quick" else 60
    for N in sizes:
        for limit in limits:
            for rep in range(reps):
                nk = rng.choice([1, 2, 3, 5, 9])
                # stated assumption of the proof (contracts/coo_utils.py ROOM): the run stack (2*ceil(log2 N) levels) does not
                # fill up; with an artificially small LIMIT it does after 2**levels sorts (IndexError observed for N=8, LIMIT=1
                # at 64 all-equal appends), at the real LIMIT that needs > LIMIT*N^2 events.  Histories stay inside the assumption.
                levels = 2 * int(math.ceil(math.log2(N)))
                cap = 4 * N + 10 if limit >= N else max(1, limit * 2 ** max(levels - 2, 0) - 1)
                length = rng.randint(0, min(4 * N + 10, cap))
                keys = [rng.randrange(nk) for _ in range(length)]
                if rep == 0:
                    keys = [0] * min(N + 3, cap)  # all keys equal to the stale sentinel value
                if rep == 1:
                    keys = list(range(min(3 * N, cap)))  # all distinct: forces growth
                if rep >= 3 and rep % 2 == 1:
                    # 64-bit keys (key = col + array_mul * row exceeds 2**31 for vocabularies of ~46k tokens): pairs of keys that agree
                    # modulo 2**32 must stay distinct cells through every sort / merge / growth
                    keys = [k + (rng.choice([0, 1, 1 << 8]) << 32) + rng.choice([0, 1 << 31]) for k in keys]
                msg = run_sequence(N, limit, keys)
                R.case(("acc", N, limit, tuple(keys)), nontrivial=length >= N - 1, sample=dict(N=N, limit=limit, keys=keys[:12]) if rep == 2 and N == 5 else None)
                if msg:
                    R.fail("accumulator", msg, N=N, limit=limit, keys=keys)
    # ---------------- API level
    def corpus(n_seq, length, n_tok):
        return [[str(rng.randrange(n_tok)) for _ in range(rng.randint(0, length))] for _ in range(n_seq)]
    base_cfg = dict(window_radii=2, window_orientations="directional", normalize_windows=False)
    n_corp = 2 if tier == "quick" else 8
    for ci in range(n_corp):
        X = corpus(14 if tier == "quick" else 40, 12, 5)
        if not any(X):
            continue
        try:
            v0, M0 = api(TokenCooccurrenceVectorizer, X, **base_cfg)
        except (IndexError, UnboundLocalError) as ex:
            R.case(("api-base", ci))
            R.fail("api/base-%s" % type(ex).__name__, "fit_transform with default settings raises %s" % type(ex).__name__, X=X)
            continue
        for nt in ((2, 3) if tier == "quick" else (2, 3, 4, 8, 16)):
            for mem in ("1k", "2k", "10k"):
                for limit in (4, 64, None):
                    cfg = dict(n_threads=nt, coo_initial_memory=mem, limit=limit)
                    try:
                        v, M = api(TokenCooccurrenceVectorizer, X, limit=limit, n_threads=nt, coo_initial_memory=mem, **base_cfg)
                    except (IndexError, UnboundLocalError) as ex:
                        R.case(("api", ci, nt, mem, limit))
                        R.fail("api/%s" % type(ex).__name__, "fit_transform raises %s with %r" % (type(ex).__name__, cfg), X=X, **cfg)
                        continue
                    R.case(("api", ci, nt, mem, limit), sample=dict(cfg, n_sequences=len(X)) if ci == 0 and nt == 2 else None)
                    if M.shape != M0.shape or not np.allclose(M, M0, rtol=1e-5, atol=1e-6):
                        R.fail("api/depends-on-config", "matrix differs from n_threads=1/default memory with %r (max abs diff %.3g)" % (cfg, np.abs(M - M0).max() if M.shape == M0.shape else -1), X=X, **cfg)
        # transform of a corpus much larger than the one used to fit
        big = X * 8
        try:
            vf = TokenCooccurrenceVectorizer(n_threads=2, coo_initial_memory="1k", **base_cfg).fit(X)
            Mb = np.asarray(vf.transform(big).todense(), dtype=np.float64)
            R.case(("api-transform", ci))
            if not np.allclose(Mb, 8 * M0, rtol=1e-4, atol=1e-5):
                R.fail("api/transform-volume", "transform of 8x the corpus is not 8x the matrix (max abs diff %.3g)" % np.abs(Mb - 8 * M0).max(), X=X)
        except (IndexError, UnboundLocalError) as ex:
            R.fail("api/transform-%s" % type(ex).__name__, "transform of 8x the corpus raises %s" % type(ex).__name__, X=X)
    # other vectorizers: thread / memory independence
    for ci in range(1 if tier == "quick" else 4):
        Xn = corpus(12, 10, 4)
        for cls, X, kw in (
            (NgramCooccurrenceVectorizer, Xn, dict(ngram_size=2, window_radii=2, normalize_windows=False)),
            (TimedTokenCooccurrenceVectorizer, [[(t, float(i)) for i, t in enumerate(s)] for s in Xn], dict(window_radii=2, normalize_windows=False, kernel_args={"delta": 1.0})),
            (MultiSetCooccurrenceVectorizer, [[s[i:i + 2] for i in range(0, len(s), 2)] for s in Xn if s], dict(window_radii=1, normalize_windows=False)),
        ):
            if not any(len(s) for s in X):
                continue
            try:
                v0, M0 = api(cls, X, **kw)
            except ValueError:
                continue
            except (IndexError, UnboundLocalError) as ex:
                R.case((cls.__name__, "base", ci))
                R.fail("api-%s/base-%s" % (cls.__name__, type(ex).__name__), "%s.fit_transform with default memory raises %s" % (cls.__name__, type(ex).__name__), X=X)
                continue
            for nt, mem, limit in ((2, "1k", 4), (3, "2k", 64), (1, "1k", 2)):
                try:
                    v, M = api(cls, X, limit=limit, n_threads=nt, coo_initial_memory=mem, **kw)
                except (IndexError, UnboundLocalError) as ex:
                    R.case((cls.__name__, ci, nt, mem, limit))
                    R.fail("api-%s/%s" % (cls.__name__, type(ex).__name__), "%s raises %s with n_threads=%d, %s, LIMIT=%r" % (cls.__name__, type(ex).__name__, nt, mem, limit), X=X, n_threads=nt, coo_initial_memory=mem, limit=limit)
                    continue
                R.case((cls.__name__, ci, nt, mem, limit))
                if M.shape != M0.shape or not np.allclose(M, M0, rtol=1e-5, atol=1e-6):
                    R.fail("api-%s/depends-on-config" % cls.__name__, "%s matrix differs with n_threads=%d, %s, LIMIT=%r" % (cls.__name__, nt, mem, limit), X=X, n_threads=nt, coo_initial_memory=mem, limit=limit)
    if tier != "quick":
        # real threshold, compiled would be needed for > 2*65536 buffered entries; interpreted run at the real LIMIT with a mid-size corpus
        X = corpus(60, 40, 12)
        v0, M0 = api(TokenCooccurrenceVectorizer, X, **base_cfg)
        v, M = api(TokenCooccurrenceVectorizer, X, n_threads=4, coo_initial_memory="10k", **base_cfg)
        R.case(("api-real-limit",))
        if not np.allclose(M, M0, rtol=1e-5, atol=1e-6):
            R.fail("api/real-limit", "matrix differs at the real COO_QUICKSORT_LIMIT with n_threads=4, 10k", X=X)
    return R.result()


def replay(case):
    if "keys" in case:
        return run_sequence(case["N"], case["limit"], case["keys"]) is None
    return True
