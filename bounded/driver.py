"""Dispatcher of the bounded (run-time contract / reference) drivers.  /venv/bin/python -m bounded.driver <ID> ..."""
import importlib
import json
import os
import sys
import time

os.environ.setdefault("NUMBA_DISABLE_JIT", "1")
from . import cspec  # noqa  (path set-up: VERIF_REPO first on sys.path)


class Recorder:
    """Collects cases, failures and coverage numbers for a driver."""

    def __init__(self, rule):
        self.rule = rule
        self.evaluations = 0
        self.nontrivial = set()
        self.samples = []
        self.failures = []
        self.scope = {}
        self.exhaustive = False
        self.notes = []

    def case(self, key, nontrivial=True, sample=None):
        self.evaluations += 1
        if nontrivial:
            self.nontrivial.add(key if isinstance(key, (str, int, tuple)) else repr(key))
        if sample is not None and len(self.samples) < 8:
            self.samples.append(sample)

    def fail(self, fid, what, **data):
        if len(self.failures) < 200:
            self.failures.append(dict(id=fid, what=what, **data))

    def result(self):
        return dict(evaluations=self.evaluations, distinct_nontrivial=len(self.nontrivial), rule=self.rule, samples=self.samples,
                    failures=self.failures, scope=self.scope, exhaustive=self.exhaustive, notes=self.notes)


def main(argv):
    pid = argv[0]
    drv = importlib.import_module("bounded.drv_" + pid)
    if "--replay" in argv:
        rp = json.load(open(argv[argv.index("--replay") + 1]))
        ok = drv.replay(rp["bounded_case"])
        print("replay of bounded case %s: %s" % (rp["bounded_case"].get("id"), "no longer fails" if ok else "FAILS (reproduced on the real code)"))
        return 0 if ok else 1
    tier = argv[argv.index("--tier") + 1] if "--tier" in argv else "quick"
    seed = int(argv[argv.index("--seed") + 1]) if "--seed" in argv else 0
    out = argv[argv.index("--out") + 1] if "--out" in argv else None
    t0 = time.time()
    res = drv.run(tier, seed)
    res["wall_s"] = round(time.time() - t0, 2)
    cc = sys.modules.get("bounded.cooc_common")
    if cc is not None and getattr(cc, "TIES_EXCLUDED", None):
        res.setdefault("notes", []).append("%d generated cases excluded from the comparison because a variable window radius or a thresholded entry sits "
                                           "on a rounding boundary (float precision, not the definition, decides those)" % len(cc.TIES_EXCLUDED))
    if out:
        json.dump(res, open(out, "w"), default=str)
    else:
        print(json.dumps(res, indent=1, default=str)[:6000])
    return 0


if __name__ == "__main__":
    sys.exit(main(sys.argv[1:]))
