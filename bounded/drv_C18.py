"""C18 bounded driver: distances vs independent float64 definitions (BOUNDED, never counted as proved)."""
import itertools
import math
import random

import numpy as np

from .driver import Recorder
import vectorizers.distances as D


def pf(f):
    return getattr(f, "py_func", f)


def ref_hellinger(x, y):
    sx, sy = x.sum(), y.sum()
    bc = np.sqrt(x * y).sum() / math.sqrt(sx * sy)
    return math.sqrt(max(0.0, 1.0 - bc))


def ref_tv(x, y):
    return 0.5 * np.abs(x / x.sum() - y / y.sum()).sum()


def ref_kant(x, y):
    return np.abs(np.cumsum(x / x.sum()) - np.cumsum(y / y.sum())).sum()


def sparse_enc(v, explicit_zero_at=None):
    idx = [i for i, e in enumerate(v) if e != 0 or i == explicit_zero_at]
    return np.array(idx, dtype=np.int32), np.array([v[i] for i in idx], dtype=np.float32)


DENSE = dict(hellinger=D.hellinger, total_variation=D.total_variation, kantorovich1d=D.kantorovich1d,
             jensen_shannon_divergence=D.jensen_shannon_divergence, symmetric_kl_divergence=D.symmetric_kl_divergence)
SPARSE = dict(hellinger=D.sparse_hellinger, total_variation=D.sparse_total_variation,
              jensen_shannon_divergence=D.sparse_jensen_shannon_divergence, symmetric_kl_divergence=D.sparse_symmetric_kl_divergence)
REFS = dict(hellinger=ref_hellinger, total_variation=ref_tv, kantorovich1d=ref_kant)
METRIC = ("hellinger", "total_variation", "kantorovich1d")


def check_pair(R, x, y, tag):
    xs, ys = np.array(x, dtype=np.float64), np.array(y, dtype=np.float64)
    prop = proportional(xs, ys)
    for name, f in DENSE.items():
        f = pf(f)
        with np.errstate(all="ignore"):
            d1 = f(xs.copy(), ys.copy())
            d2 = f(ys.copy(), xs.copy())
        cid = "%s:%s" % (name, tag)
        inp = dict(function=name, x=list(map(float, x)), y=list(map(float, y)))
        R.case((name, tuple(x), tuple(y)), nontrivial=not np.array_equal(xs, ys), sample=dict(inp, value=float(d1)) if name == "hellinger" else None)
        if not np.isfinite(d1):
            R.fail("%s/nonfinite" % name, "%s returns %r on non-negative inputs with positive mass" % (name, d1), **inp)
            continue
        if d1 < -1e-12:
            R.fail("%s/negative" % name, "%s returns %r < 0" % (name, d1), **inp)
        if abs(d1 - d2) > 1e-12 * max(1.0, abs(d1)):
            R.fail("%s/asymmetric" % name, "%s(x,y)=%r but %s(y,x)=%r" % (name, d1, name, d2), **inp)
        if name in ("hellinger", "total_variation") and d1 > 1 + 1e-9:
            R.fail("%s/range" % name, "%s returns %r > 1" % (name, d1), **inp)
        if prop and abs(d1) > 1e-6:
            # (a total mass within a few orders of magnitude of the float32 epsilon that the divergences add to every entry before
            # normalising is its own failure class, so that the known finding about it cannot hide a failure at ordinary scales)
            tiny = min(xs.sum(), ys.sum()) < 1e-4
            R.fail("%s/proportional%s" % (name, "-tiny-mass" if tiny else ""), "%s returns %r on proportional inputs" % (name, d1), **inp)
        if name in REFS:
            ref = REFS[name](xs, ys)
            if abs(ref - d1) > 1e-6 * max(1.0, abs(ref)) and abs(ref * ref - d1 * d1) > 1e-9:
                R.fail("%s/value" % name, "%s returns %r, definition gives %r" % (name, d1, ref), **inp)
        # sparse variant on every sparse encoding considered
        if name in SPARSE:
            for ez in (None, 0):
                i1, v1 = sparse_enc(x, ez if x[0] == 0 else None)
                i2, v2 = sparse_enc(y, None)
                with np.errstate(all="ignore"):
                    try:
                        ds = pf(SPARSE[name])(i1, v1, i2, v2)
                    except (IndexError, UnboundLocalError) as ex:
                        R.fail("sparse_%s/exception" % name, "sparse %s raises %s" % (name, type(ex).__name__), **inp)
                        continue
                R.case(("sparse", name, tuple(x), tuple(y), ez), nontrivial=True)
                x32 = np.array(x, dtype=np.float32).astype(np.float64)
                y32 = np.array(y, dtype=np.float32).astype(np.float64)
                with np.errstate(all="ignore"):
                    dd = f(x32, y32)
                if not np.isfinite(ds) or (np.isfinite(dd) and abs(ds - dd) > 2e-3 * max(1.0, abs(dd)) and abs(ds * ds - dd * dd) > 1e-5):
                    R.fail("sparse_%s/differs" % name, "sparse %s = %r, dense = %r" % (name, ds, dd), **inp)


def proportional(x, y):
    if x.sum() <= 0 or y.sum() <= 0:
        return False
    return np.allclose(x / x.sum(), y / y.sum(), rtol=1e-12, atol=0)


def dense_of(ind, data, dim):
    v = np.zeros(dim)
    for i, d in zip(ind, data):
        v[i] += d
    return v


def check_helpers(R, x, y):
    dim = len(x)
    i1, v1 = sparse_enc(x)
    i2, v2 = sparse_enc(y)
    for name, f, op in (("sparse_sum", D.sparse_sum, lambda a, b: a + b), ("sparse_diff", D.sparse_diff, lambda a, b: a - b),
                        ("sparse_mul", D.sparse_mul, lambda a, b: a * b)):
        inp = dict(function=name, ind1=i1.tolist(), data1=v1.tolist(), ind2=i2.tolist(), data2=v2.tolist())
        try:
            ri, rd = pf(f)(i1.copy(), v1.copy(), i2.copy(), v2.copy())
        except (IndexError, UnboundLocalError) as ex:
            R.fail("%s/exception" % name, "%s raises %s" % (name, type(ex).__name__), **inp)
            continue
        R.case((name, tuple(x), tuple(y)), nontrivial=len(i1) > 0 and len(i2) > 0, sample=dict(inp, result=[ri.tolist(), rd.tolist()]) if name == "sparse_sum" else None)
        want = op(np.array(x, dtype=np.float32), np.array(y, dtype=np.float32)).astype(np.float64)
        widx = [i for i in range(dim) if want[i] != 0]
        if list(ri) != widx:
            R.fail("%s/indices" % name, "%s returns indices %r, dense arithmetic has non-zeros at %r" % (name, list(map(int, ri)), widx), **inp)
        elif not np.allclose(rd, want[widx], rtol=1e-6):
            R.fail("%s/values" % name, "%s returns values %r, dense arithmetic gives %r" % (name, rd.tolist(), want[widx].tolist()), **inp)


def run(tier, seed):
    R = Recorder("all vectors of dimension 1..3 over the grid {0,1,2,3,1e-3,1e3} with positive mass, all ordered pairs (exhaustive); "
                 "sampled triples for the triangle inequality; seeded random vectors of random scale in thorough tier. "
                 "non-trivial = the two vectors differ")
    grid = [0.0, 1.0, 2.0, 3.0, 1e-3, 1e3]
    maxdim = 3
    R.scope = dict(grid=grid, max_dim=maxdim)
    vecs = {d: [v for v in itertools.product(grid, repeat=d) if sum(v) > 0] for d in range(1, maxdim + 1)}
    rng = random.Random(seed)
    for d in range(1, maxdim + 1):
        vs = vecs[d]
        pairs = list(itertools.product(vs, vs))
        if d == 3 and tier == "quick":
            pairs = rng.sample(pairs, 6000)
        for x, y in pairs:
            check_pair(R, x, y, "grid%d" % d)
        hp = list(itertools.product([v for v in itertools.product([0.0, 1.0, 2.0, 0.5], repeat=d)], repeat=2))
        for x, y in hp:
            check_helpers(R, x, y)
    R.exhaustive = tier != "quick"
    # triangle inequality
    for d in (2, 3):
        vs = vecs[d]
        for _ in range(3000 if tier == "quick" else 30000):
            x, y, z = (np.array(rng.choice(vs)) for _ in range(3))
            for name in METRIC:
                f = pf(DENSE[name])
                with np.errstate(all="ignore"):
                    a, b, c = f(x.copy(), z.copy()), f(x.copy(), y.copy()), f(y.copy(), z.copy())
                R.case(("tri", name, tuple(x), tuple(y), tuple(z)))
                # each term is only exact to the 1e-6 the property itself allows for "vanishes" (hellinger's sqrt turns 1e-16 into 1e-8)
                if np.isfinite([a, b, c]).all() and a > b + c + 2e-6:
                    R.fail("%s/triangle" % name, "%s violates the triangle inequality: %r > %r + %r" % (name, a, b, c), x=x.tolist(), y=y.tolist(), z=z.tolist())
    # proportional pairs at several scales (the hellinger clamp)
    nprop = 400 if tier == "quick" else 5000
    for i in range(nprop):
        d = rng.choice([2, 3, 5, 8])
        x = [rng.random() * rng.choice([1.0, 1e-3, 1e3]) for _ in range(d)]
        c = rng.choice([0.3, 1.2428, 2.0, 7.77, 1e-3, 1e3])
        y = [c * e for e in x]
        check_pair(R, tuple(x), tuple(y), "prop")
    # the recorded tiny-mass proportional pair (known finding), in every tier
    check_pair(R, (0.0, 2.844704804745618e-07), (0.0, 5.796017666848061e-07), "tiny")
    if tier != "quick":
        for i in range(5000):
            d = rng.choice([1, 2, 4, 7])
            sc = 10.0 ** rng.randint(-6, 6)
            x = tuple(rng.choice([0.0, rng.random() * sc]) for _ in range(d))
            y = tuple(rng.choice([0.0, rng.random() * sc]) for _ in range(d))
            if sum(x) > 0 and sum(y) > 0:
                check_pair(R, x, y, "rand")
    return R.result()


def replay(case):
    R = Recorder("replay")
    if "ind1" in case:
        dim = max(case["ind1"] + case["ind2"] + [0]) + 1
        x = dense_of(case["ind1"], case["data1"], dim)
        y = dense_of(case["ind2"], case["data2"], dim)
        check_helpers(R, tuple(x), tuple(y))
    elif "z" in case:
        return True
    else:
        check_pair(R, tuple(case["x"]), tuple(case["y"]), "replay")
    return not any(f["id"] == case["id"] for f in R.failures)
