"""Edge-input catalogue of C10, runnable in one process per execution mode:
   python -m bounded.c10_scenarios --out FILE
(the parent sets NUMBA_DISABLE_JIT=1 / NUMBA_BOUNDSCHECK=1 / nothing).  Every scenario returns JSON-able
results or records the exception type."""
import json
import os
import sys

import numpy as np
import scipy.sparse as sp

from . import cspec  # noqa: path set-up
import vectorizers as V
import vectorizers.distances as D
from vectorizers.transformers import (InformationWeightTransformer, RowDenoisingTransformer, SlidingWindowTransformer, SequentialDifferenceTransformer)


def j(x):
    if sp.issparse(x):
        return np.round(np.asarray(x.todense(), dtype=np.float64), 6).tolist()
    if isinstance(x, np.ndarray):
        return np.round(x.astype(np.float64), 6).tolist() if x.dtype.kind in "fiub" else x.tolist()
    if isinstance(x, (list, tuple)):
        return [j(v) for v in x]
    if isinstance(x, (np.floating, np.integer)):
        return round(float(x), 6)
    if isinstance(x, float):
        return round(x, 6)
    return x


SCENARIOS = {}


def scenario(f):
    SCENARIOS[f.__name__] = f
    return f


@scenario
def bpe_short_strings():
    out = []
    for X in (["aaaa", "abab", "a", ""], ["abab", "ab"], ["aa", "aa"], ["aaa"], ["ababab", "b", "", "ab"]):
        for k in (1, 2, 10):
            v = V.BytePairEncodingVectorizer(max_vocab_size=k, return_type="sequences")
            e = v.fit_transform(X)
            out.append([j([np.asarray(a) for a in e]), j([np.asarray(a) for a in v.transform(["", "a", "ab", "b", "abab"])])])
    return out


@scenario
def lz_edges():
    out = []
    for X in (["", "a", "aaaaaaaa", "abab"], ["b"], ["", ""]):
        for kw in (dict(max_columns=None), dict(max_columns=4, random_state=1), dict(max_dict_size=2, max_columns=None), dict(random_state=5)):
            v = V.LZCompressionVectorizer(**kw)
            M = v.fit_transform(X)
            out.append([j(M.sum(axis=1)), j(v.transform(["zz", "", "aab"]).sum(axis=1))])
    return out


@scenario
def cooc_tiny_buffers():
    out = []
    X = [[str((i * 7 + k * 3) % 5) for k in range(9)] for i in range(12)] + [[], ["1"]]
    for nt in (1, 2, 3):
        for mem in ("1k", "2k", "0.5 GiB"):
            v = V.TokenCooccurrenceVectorizer(window_radii=3, n_threads=nt, coo_initial_memory=mem, normalize_windows=False)
            out.append(j(v.fit_transform(X)))
    out.append(j(V.TokenCooccurrenceVectorizer(window_radii=0, n_threads=4).fit_transform([["a"], ["b", "a"]])))
    out.append(j(V.TokenCooccurrenceVectorizer(window_radii=50).fit_transform([["a", "b"], ["a"]])))
    return out


@scenario
def cooc_em_pruned_cells():
    out = []
    X = [["a", "b", "a", "c", "a", "b", "b", "c", "c", "a"], ["c", "a", "d"]]
    for n_iter, eps in ((1, 0.0), (2, 0.12), (3, 0.3), (2, 1.0)):
        v = V.TokenCooccurrenceVectorizer(window_radii=2, window_orientations="after", n_iter=n_iter, epsilon=eps)
        out.append(j(v.fit_transform(X)))
    return out


@scenario
def cooc_supplied_dictionary_and_mask():
    X = [["a", "b", "q", "a", "b"], ["b", "q", "a"]]
    out = []
    for kw in (dict(token_dictionary={"a": 0, "b": 1, "z": 2}), dict(token_dictionary={"a": 0, "b": 1, "z": 2}, mask_string="[M]", nullify_mask=True),
               dict(min_occurrences=3, mask_string="[M]"), dict(window_functions="variable", window_radii=2)):
        out.append(j(V.TokenCooccurrenceVectorizer(window_radii=kw.pop("window_radii", 2), **kw).fit_transform(X)))
    return out


@scenario
def multiset_and_timed_and_ngram():
    out = []
    Xm = [[["a", "b"], ["a"], ["c", "b"]], [["b"]]]  # (empty multisets / documents cannot be typed by numba)
    out.append(j(V.MultiSetCooccurrenceVectorizer(window_radii=1, coo_initial_memory="1k").fit_transform(Xm)))
    Xt = [[("a", 1.0), ("b", 2.5), ("a", 2.5)], [("b", 0.0)], []]
    out.append(j(V.TimedTokenCooccurrenceVectorizer(window_radii=2, kernel_args={"delta": 1.0}).fit_transform(Xt)))
    Xn = [["a", "b", "a", "b", "c"], ["a"], ["b", "c"]]
    out.append(j(V.NgramCooccurrenceVectorizer(ngram_size=2, window_radii=2).fit_transform(Xn)))
    out.append(j(V.NgramCooccurrenceVectorizer(ngram_size=3, window_radii=1, n_iter=1).fit_transform(Xn)))
    return out


@scenario
def distances_edges():
    out = []
    for x, y in (([1.0], [2.0]), ([1.0, 0.0], [0.0, 1.0]), ([0.2, 0.3, 0.5], [0.2486, 0.3729, 0.6215]), ([1e-30, 1.0], [1.0, 1e30])):
        x, y = np.array(x), np.array(y)
        out.append([j(f(x.copy(), y.copy())) for f in (D.hellinger, D.total_variation, D.kantorovich1d, D.jensen_shannon_divergence, D.symmetric_kl_divergence)])
    for a, b in ((([0, 5], [1.0, 1.0]), ([0, 7, 9], [1.0, 2.0, 3.0])), (([], []), ([1], [2.0])), (([3], [1.0]), ([], [])), (([1, 2], [1.0, -1.0]), ([2, 4], [1.0, 1.0]))):
        i1, d1 = np.array(a[0], dtype=np.int32), np.array(a[1], dtype=np.float32)
        i2, d2 = np.array(b[0], dtype=np.int32), np.array(b[1], dtype=np.float32)
        for f in (D.sparse_sum, D.sparse_diff, D.sparse_mul):
            r = f(i1.copy(), d1.copy(), i2.copy(), d2.copy())
            out.append([j(r[0]), j(r[1])])
        if len(i1) and len(i2):
            out.append([j(D.sparse_hellinger(i1, np.abs(d1), i2, d2)), j(D.sparse_total_variation(i1, np.abs(d1), i2, d2))])
    return out


@scenario
def sliding_and_transformers():
    out = []
    for kw, seqs in ((dict(window_width=3), [np.arange(3.0), np.arange(6.0)]), (dict(window_width=3, window_sample=[2, 1, 0]), [np.arange(5.0)]),
                     (dict(window_width=4, window_sample=2, window_stride=3), [np.arange(9.0)]), (dict(window_width=2, pad_width=2), [np.arange(1.0) + 1])):
        out.append(j(SlidingWindowTransformer(**kw).fit_transform(seqs)))
    out.append(j(SequentialDifferenceTransformer(stride=2).fit_transform([np.arange(5.0) ** 2])))
    C = sp.csr_matrix(np.array([[2, 0, 1], [0, 1, 0], [4, 4, 0], [0, 0, 0]], dtype=np.float64))
    out.append(j(InformationWeightTransformer().fit_transform(C)))
    out.append(j(RowDenoisingTransformer().fit_transform(C)))
    return out


@scenario
def skipgram_ngram_edges():
    out = []
    X = [["a", "b", "a", "c"], ["b"], [], ["c", "c"]]
    v = V.SkipgramVectorizer(window_radius=3)
    out.append(j(v.fit_transform(X)))
    out.append(j(v.transform([["c", "a"], [], ["z"]])))
    n = V.NgramVectorizer(ngram_size=3, ngram_behaviour="subgrams")
    out.append(j(n.fit_transform(X)))
    out.append(j(n.transform([["a"], [], ["a", "b", "a", "c", "z"]])))
    return out


def main(argv):
    out = argv[argv.index("--out") + 1]
    only = argv[argv.index("--only") + 1].split(",") if "--only" in argv else None
    res = {}
    for name, f in SCENARIOS.items():
        if only and name not in only:
            continue
        try:
            with np.errstate(all="ignore"):
                res[name] = dict(ok=True, value=f())
        except Exception as ex:
            res[name] = dict(ok=False, exception=type(ex).__name__, message=str(ex)[:200])
    json.dump(res, open(out, "w"))
    return 0


if __name__ == "__main__":
    sys.exit(main(sys.argv[1:]))
