"""C14 bounded driver: masking keeps positions; nullifying the mask removes its contribution (BOUNDED)."""
import random

import numpy as np

from .driver import Recorder
from . import cooc_common as CC
import vectorizers as V
from vectorizers.preprocessing import preprocess_token_sequences

EXC = (IndexError, KeyError, UnboundLocalError, ZeroDivisionError, TypeError)


def check_positions(R, X, minocc, mask):
    """Re-indexed sequences: deletion vs in-place replacement by the last index."""
    case = dict(X=X, min_occurrences=minocc, mask_string=mask)
    key = ("positions", repr(X), minocc, mask)
    counts = {}
    for s in X:
        for t in s:
            counts[t] = counts.get(t, 0) + 1
    kept = sorted(t for t, c in counts.items() if c >= minocc)
    if not kept:
        return
    try:
        seqs, d, inv, freq = preprocess_token_sequences([list(s) for s in X], None, min_occurrences=minocc, masking=mask)
    except EXC as ex:
        R.case(key)
        R.fail("positions/%s" % type(ex).__name__, "raises %s" % type(ex).__name__, **case)
        return
    R.case(key, nontrivial=len(kept) < len(counts), sample=dict(case, sequences=[list(map(int, s)) for s in seqs]) if len(kept) < len(counts) else None)
    want_d = {t: i for i, t in enumerate(kept)}
    if mask is not None:
        want_d[mask] = len(kept)
    if d != want_d:
        R.fail("positions/dictionary", "dictionary %r, expected %r (mask = exactly one extra entry with the last index)" % (d, want_d), **case)
        return
    for s, got in zip(X, seqs):
        want = [want_d[t] for t in s if t in want_d] if mask is None else [want_d.get(t, len(kept)) for t in s]
        if list(map(int, got)) != want:
            R.fail("positions/sequence", "re-indexed sequence %r, expected %r" % (list(map(int, got)), want), **case)
            return


def check_cooc(R, X, cfg):
    case = dict(X=X, cfg=cfg)
    key = ("cooc", repr(X), repr(cfg))
    try:
        M_ref, labels, blocks, _ = CC.reference_matrix(X, cfg)
        if not labels or (len(labels) == 1 and cfg.get("mask_string")):
            return
        M_api, v = CC.api_matrix(X, cfg)
    except ValueError:
        return
    except EXC as ex:
        R.case(key)
        R.fail("cooc/%s" % type(ex).__name__, "raises %s: %s" % (type(ex).__name__, str(ex)[:100]), **case)
        return
    R.case(key, nontrivial=bool(M_ref.any()), sample=dict(case, labels=labels) if M_ref.any() else None)
    d = CC.compare(M_api, v, M_ref, labels, blocks)
    if d:
        R.fail("cooc/definition", d, **case)
        return
    if cfg.get("nullify_mask"):
        m = len(labels) - 1
        n = len(labels)
        if M_api[m].any() or any(M_api[:, m + b * n].any() for b in range(len(blocks))):
            R.fail("cooc/mask-not-null", "mask row or a mask column is non-zero with nullify_mask=True", **case)
            return
        # all other cells equal those of the masked computation with the mask's contributions removed
        cfg2 = dict(cfg, nullify_mask=False)
        M2, v2 = CC.api_matrix(X, cfg2)
        M2 = M2.copy()
        M2[m] = 0
        for b in range(len(blocks)):
            M2[:, m + b * n] = 0
        if not cfg.get("normalize_windows") and not (cfg.get("kernel_args") or {}).get("normalize") and not np.allclose(M_api, M2, rtol=2e-5, atol=1e-6):
            R.fail("cooc/other-cells", "cells not involving the mask differ between nullify_mask=True and the masked computation", **case)


def check_supplied(R):
    """mask index when the supplied dictionary has tokens that never occur (frequency table shorter than the dictionary)."""
    X = [["a", "b", "q", "a", "b"], ["b", "q", "a"]]
    d = {"a": 0, "b": 1, "z": 2}
    try:
        v = V.TokenCooccurrenceVectorizer(token_dictionary=dict(d), mask_string="[M]", nullify_mask=True, window_radii=2, normalize_windows=False)
        M = np.asarray(v.fit_transform(X).todense())
    except EXC as ex:
        R.case(("supplied",))
        R.fail("supplied/%s" % type(ex).__name__, "raises %s: %s" % (type(ex).__name__, str(ex)[:100]), X=X, token_dictionary=d)
        return
    R.case(("supplied",), sample=dict(X=X, token_dictionary=d, labels=list(v.token_label_dictionary_)))
    m = v.token_label_dictionary_["[M]"]
    n = len(v.token_label_dictionary_)
    if M[m].any() or any(M[:, m + b * n].any() for b in range(M.shape[1] // n)):
        R.fail("supplied/mask-not-null", "supplied dictionary with an absent token: mask row/columns are non-zero under nullify_mask", X=X, token_dictionary=d)
    zi = v.token_label_dictionary_["z"]
    # z never occurs: its row is zero for that reason, but a and b must keep their mutual counts
    if M[0, 1 + 0 * n] == 0 and M[0, 1 + 1 * n] == 0:
        R.fail("supplied/real-token-nullified", "a real token's cells were zeroed instead of the mask's", X=X, token_dictionary=d)


def run(tier, seed):
    R = Recorder("(a) re-indexing: corpora of <= 3 sequences of length <= 5 over 4 tokens x min_occurrences 1..3 x mask None/'[M]': deletion vs in-place "
                 "replacement, dictionary gains exactly one last entry; (b) TokenCooccurrenceVectorizer vs the reference for (mask) and (mask + nullify) on pruned "
                 "corpora x sampled window/kernel settings, mask row/columns zero and other cells unchanged; (c) supplied dictionary with absent tokens; "
                 "(d) NgramVectorizer positions. non-trivial = some token pruned / matrix non-zero")
    rng = random.Random(seed)
    for _ in range(150 if tier == "quick" else 2000):
        X = [[rng.choice("abcd") for _ in range(rng.randint(0, 5))] for _ in range(rng.randint(1, 3))]
        check_positions(R, X, rng.choice([1, 2, 3]), rng.choice([None, "[M]"]))
    for _ in range(60 if tier == "quick" else 800):
        X = [[rng.choice("aabbc d".replace(" ", "")) for _ in range(rng.randint(1, 6))] for _ in range(rng.randint(1, 3))]
        cfg = dict(rng.choice(CC.CONFIGS))
        cfg.update(min_occurrences=2, mask_string="[M]", nullify_mask=rng.choice([False, True]))
        check_cooc(R, X, cfg)
    check_supplied(R)
    # Ngram positions with a mask: bigram across a removed token must involve the mask, not join the neighbours
    X = [["a", "x", "b", "a", "y", "b"], ["a", "b"]]
    try:
        v = V.NgramVectorizer(ngram_size=2, min_occurrences=2, mask_string="[M]")
        M = v.fit_transform(X).toarray()
        T = v.transform(X).toarray()
        R.case(("ngram-mask",), sample=dict(X=X, columns=[list(k) for k in v.column_label_dictionary_]))
        cols = v.column_label_dictionary_
        if ("a", "[M]") not in cols or M[0, cols[("a", "[M]")]] != 2 or (("a", "b") in cols and M[0, cols[("a", "b")]] != 0):
            R.fail("ngram/mask-position", "bigram (a, mask) missing: removed tokens were deleted instead of replaced in place", X=X)
        elif not np.array_equal(M, T):
            R.fail("ngram/transform-mask", "transform ignores the mask: differs from fit_transform", X=X)
    except EXC as ex:
        R.fail("ngram/%s" % type(ex).__name__, "raises %s" % type(ex).__name__, X=X)
    return R.result()


def replay(case):
    R = Recorder("replay")
    if case["id"].startswith("positions"):
        check_positions(R, case["X"], case["min_occurrences"], case["mask_string"])
    elif case["id"].startswith("cooc"):
        check_cooc(R, case["X"], case["cfg"])
    else:
        return not any(f["id"] == case["id"] for f in run("quick", 0)["failures"])
    return not any(f["id"] == case["id"] for f in R.failures)
