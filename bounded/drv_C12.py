"""C12 bounded driver: each output row depends only on its own item and the fitted model (BOUNDED, metamorphic)."""
import copy
import random

import numpy as np
import scipy.sparse as sp

from .driver import Recorder
from . import estimators as ES

EXC = (IndexError, KeyError, ValueError, UnboundLocalError, ZeroDivisionError, TypeError, AssertionError)
ROWWISE = None


def concat(parts):
    if hasattr(parts[0], "shape") and sp.issparse(parts[0]):
        return sp.vstack(parts).tocsr()
    if isinstance(parts[0], np.ndarray) and parts[0].ndim == 2:
        return np.vstack(parts)
    out = []
    for p in parts:
        out += list(p)
    return out


def out_rows(out, idx):
    if hasattr(out, "shape"):
        return out[idx]
    return [out[i] for i in idx]


def check_entry(R, e, rng, tier):
    if not e.rowwise:
        return
    try:
        est = e.fit()
    except OverflowError:
        return
    except EXC as ex:
        R.fail("%s/fit-%s" % (e.name, type(ex).__name__), "fit raises %s" % type(ex).__name__, estimator=e.name)
        return
    for vname, X in e.variants:
        n = ES.n_rows(X)
        if n < 2:
            continue
        kw = ES.variant_kw(e, vname)
        try:
            full = e.transform(est, X, kw)
        except EXC as ex:
            R.fail("%s/%s-%s" % (e.name, vname, type(ex).__name__), "transform raises %s" % type(ex).__name__, estimator=e.name, variant=vname)
            continue
        tol = 1e-9 if e.exact else 1e-7
        trials = 3 if tier == "quick" else 12
        for t in range(trials):
            kind = ["split", "permute", "duplicate"][t % 3]
            key = (e.name, vname, kind, t)
            try:
                if kind == "split":
                    k = rng.randint(1, n - 1)
                    ia, ib = list(range(k)), list(range(k, n))
                    kwa = e.kw_slice(kw, ia, vname) if e.kw_slice else kw
                    kwb = e.kw_slice(kw, ib, vname) if e.kw_slice else kw
                    a = e.transform(est, ES.take(X, ia), kwa)
                    b = e.transform(est, ES.take(X, ib), kwb)
                    ok = ES.rows_equal(out_rows(full, ia), a, e.exact, tol) and ES.rows_equal(out_rows(full, ib), b, e.exact, tol)
                    what = "transform(A + B) != vstack(transform(A), transform(B)) for a split at %d" % k
                elif kind == "permute":
                    perm = list(range(n))
                    rng.shuffle(perm)
                    kwp = e.kw_slice(kw, perm, vname) if e.kw_slice else kw
                    p = e.transform(est, ES.take(X, perm), kwp)
                    ok = ES.rows_equal(out_rows(full, perm), p, e.exact, tol)
                    what = "permuting the inputs (%r) does not permute the rows" % perm
                else:
                    j = rng.randrange(n)
                    idx = list(range(n)) + [j, j]
                    kwd = e.kw_slice(kw, idx, vname) if e.kw_slice else kw
                    d = e.transform(est, ES.take(X, idx), kwd)
                    ok = ES.rows_equal(out_rows(full, idx), d, e.exact, tol)
                    what = "a duplicated item (%d) does not yield duplicated rows" % j
            except EXC as ex:
                R.case(key)
                R.fail("%s/%s-%s" % (e.name, kind, type(ex).__name__), "%s: raises %s: %s" % (kind, type(ex).__name__, str(ex)[:100]), estimator=e.name, variant=vname)
                continue
            R.case(key, nontrivial=True, sample=dict(estimator=e.name, variant=vname, relation=kind) if t == 0 else None)
            if not ok:
                R.fail("%s/%s" % (e.name, kind), what, estimator=e.name, variant=vname)
    # transform must not change what later transforms return
    try:
        X0 = e.variants[0][1]
        kw0 = ES.variant_kw(e, e.variants[0][0])
        a = e.transform(est, X0, kw0)
        for vname, X in e.variants[1:]:
            e.transform(est, X, ES.variant_kw(e, vname))
        b = e.transform(est, X0, kw0)
        R.case((e.name, "history"))
        if not ES.rows_equal(a, b, e.exact, 1e-12):
            R.fail("%s/history" % e.name, "transform(X1) changed after transform(X2): the fitted model was modified by transform", estimator=e.name)
    except EXC:
        pass


def run(tier, seed):
    R = Recorder("for every row-wise estimator of the catalogue and each transform-time input set: transform of a split batch vs the concatenated transforms, "
                 "a permutation of the inputs, a duplicated item (seeded choices), with small block/chunk sizes (memory_size='1k', chunk sizes 2-3), and "
                 "transform(X1) before/after transform(X2). non-trivial = relation evaluated")
    rng = random.Random(seed)
    for e in ES.catalogue():
        check_entry(R, e, rng, tier)
    return R.result()


def replay(case):
    R = Recorder("replay")
    rng = random.Random(0)
    for e in ES.catalogue():
        if e.name == case.get("estimator"):
            check_entry(R, e, rng, "thorough")
    return not any(f["id"] == case["id"] for f in R.failures)
