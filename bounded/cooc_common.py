"""Shared helpers of the co-occurrence bounded drivers (C03, C04, C11, C14)."""
import itertools
import random

import numpy as np

from spec import cooc as S
from vectorizers import TokenCooccurrenceVectorizer, TimedTokenCooccurrenceVectorizer

ALPHA = ["a", "b", "c"]
TIES_EXCLUDED = []


def sequences(max_len, alpha=ALPHA):
    out = []
    for n in range(max_len + 1):
        out += [list(t) for t in itertools.product(alpha, repeat=n)]
    return out


def as_list(x, n):
    return list(x) if isinstance(x, (list, tuple)) else [x] * n


def blocks_of(cfg):
    orients = as_list(cfg.get("window_orientations", "directional"), 1)
    n = len(orients)
    radii = as_list(cfg.get("window_radii", 5), n)
    mix = as_list(cfg.get("mix_weights") if cfg.get("mix_weights") is not None else 1.0, n)
    wf = as_list(cfg.get("window_functions", "fixed"), n)
    kf = as_list(cfg.get("kernel_functions", "flat"), n)
    ka = cfg.get("kernel_args")
    ka = [dict(ka)] * n if isinstance(ka, dict) else ([{}] * n if ka is None else [dict(a) for a in ka])
    wa = cfg.get("window_args")
    wa = [dict(wa)] * n if isinstance(wa, dict) else ([{}] * n if wa is None else [dict(a) for a in wa])
    return S.expand_orientations(orients, radii, mix, wf, kf, ka, wa)


def reference_matrix(X, cfg, timed=False, n_iter=None, eps=None):
    """Reference dense matrix + vocabulary for a corpus X (token lists, or lists of (token, time))."""
    mask = cfg.get("mask_string")
    toks = [[p[0] for p in seq] for seq in X] if timed else X
    times = [[float(p[1]) for p in seq] for seq in X] if timed else None
    d, freq = S.vocabulary(toks, cfg.get("min_occurrences"), cfg.get("max_occurrences"), cfg.get("excluded_tokens") or (), mask)
    if timed and mask is None:
        # deleted tokens take their timestamps with them
        times = [[t for tok, t in zip(ts, tt) if tok in d] for ts, tt in zip(toks, times)]
    seqs = [S.reindex(s, d, mask) for s in toks]
    n_vocab = len(d) + (1 if mask is not None else 0)
    mask_index = len(d) if (mask is not None and cfg.get("nullify_mask")) else None
    blocks = blocks_of(cfg)
    if any(S.radius_tie(b["wfun"], b["radius"], freq, mask_index, **b.get("wargs", {})) for b in blocks):
        # a variable radius on a rounding boundary (e.g. exactly 3.5): which integer it becomes depends on float precision, the
        # definition does not decide it -> the case is excluded (counted), not compared
        TIES_EXCLUDED.append(1)
        return np.zeros((0, 0)), [], blocks, None
    M0 = S.token_cooccurrence(seqs, n_vocab, freq, blocks, cfg.get("normalize_windows", True), mask_index, times)
    n_iter = cfg.get("n_iter", 0) if n_iter is None else n_iter
    eps = cfg.get("epsilon", 0) if eps is None else eps
    del S.THRESHOLD_TIES[:]
    M = S.em_refine(M0, seqs, n_vocab, freq, blocks, mask_index, n_iter, eps, times)
    if S.THRESHOLD_TIES:
        # a normalised entry equal to epsilon (e.g. 3/10 with epsilon=0.3): whether it survives "< epsilon" is decided by float32
        # rounding, not by the documented procedure -> excluded (counted), not compared
        TIES_EXCLUDED.append(1)
        return np.zeros((0, 0)), [], blocks, None
    labels = list(d) + ([mask] if mask is not None else [])
    return M, labels, blocks, M0


def api_matrix(X, cfg, timed=False, method="fit_transform", **extra):
    cls = TimedTokenCooccurrenceVectorizer if timed else TokenCooccurrenceVectorizer
    kw = dict(cfg)
    kw.update(extra)
    if isinstance(kw.get("window_orientations"), list):
        n = len(kw["window_orientations"])
        for k in ("kernel_functions", "window_functions"):
            if isinstance(kw.get(k), str):
                kw[k] = [kw[k]] * n
    v = cls(**kw)
    XX = [list(s) for s in X]
    if method == "fit_transform":
        M = v.fit_transform(XX)
    else:
        M = v.fit(XX).transform(XX)
    return np.asarray(M.todense(), dtype=np.float64), v


def compare(M_api, v, M_ref, labels, blocks):
    """Returns None if equal (float32 tolerance), else a description."""
    lab = [v.token_index_dictionary_[i] for i in range(len(v.token_index_dictionary_))]
    if lab != labels:
        return "vocabulary %r, expected %r" % (lab, labels)
    if M_api.shape != M_ref.shape:
        return "shape %r, expected %r" % (M_api.shape, M_ref.shape)
    if not np.allclose(M_api, M_ref, rtol=2e-5, atol=1e-6):
        i, j = np.unravel_index(np.argmax(np.abs(M_api - M_ref)), M_api.shape)
        return "entry (%s, col %d) = %r, definition gives %r" % (labels[i], j, M_api[i, j], M_ref[i, j])
    # column naming / block order
    n = len(labels)
    for bi, b in enumerate(blocks):
        for ti, t in enumerate(labels):
            name = "%s_%d_%s" % (b["name"], b["decl"], t)
            if v.column_label_dictionary_.get(name) != ti + bi * n:
                return "column %r is %r, expected %d" % (name, v.column_label_dictionary_.get(name), ti + bi * n)
    return None


CONFIGS = []
for orient in ("after", "before", "directional", ["before", "after"], ["after", "directional"]):
    n = len(orient) if isinstance(orient, list) else 1
    for radii in ([1, 2][:n], [2, 3][:n], [3, 1][:n], [0, 2][:n]):
        for kf in ("flat", "harmonic", "geometric"):
            for wf in ("fixed", "variable"):
                for ka in ({}, {"offset": 1}, {"normalize": True}, {"normalize": True, "offset": 1}):
                    for nw in (True, False):
                        for mix in (None, [0.5, 2.0][:n]):
                            kargs = dict(ka)
                            if kf == "geometric":
                                kargs = dict(ka, power=0.7)
                            CONFIGS.append(dict(window_orientations=orient, window_radii=radii if n > 1 else radii[0], kernel_functions=kf,
                                                window_functions=wf, kernel_args=kargs, normalize_windows=nw, mix_weights=mix))
