"""C19 bounded driver: sliding windows vs numpy.lib.stride_tricks.sliding_window_view (BOUNDED)."""
import itertools
import math
import random

import numpy as np
from numpy.lib.stride_tricks import sliding_window_view

from .driver import Recorder
from vectorizers.transformers import SlidingWindowTransformer, SequentialDifferenceTransformer


def expected_sample(width, ws):
    if ws is None:
        return np.arange(width)
    if isinstance(ws, (int, np.integer)):
        return np.arange(0, width, ws)
    if isinstance(ws, tuple) and len(ws) == 2:
        return np.arange(ws[0], width, ws[1])
    return np.asarray(ws)


def reference(seq, width, stride, sample, pad_width, pad_value, kernel_matrix):
    seq = np.asarray(seq, dtype=np.float64)
    if pad_width > 0:
        pad = np.full((pad_width,) + seq.shape[1:], pad_value, dtype=np.float64)
        seq = np.concatenate([pad, seq, pad])
    L = seq.shape[0]
    n = math.ceil((L - width + 1) / stride)
    rows = []
    for i in range(n):
        w = seq[i * stride: i * stride + width]
        assert w.shape[0] == width
        w = w[sample]
        rows.append((kernel_matrix @ w).flatten() if kernel_matrix is not None else w.flatten())
    return np.array(rows).reshape(n, -1)


def diff_matrix(n_cols, start, step, stride):
    idx = [i for i in range(n_cols) if start + i * stride + step <= n_cols - 1]
    m = np.zeros((len(idx), n_cols))
    for r, i in enumerate(idx):
        m[r, start + i * stride] = -1
        m[r, start + i * stride + step] = 1
    return m


def check(R, seq, width, stride, ws, pad_width, kernels, tag):
    cfg = dict(sequence=np.asarray(seq).tolist(), window_width=width, window_stride=stride, window_sample=(list(ws) if isinstance(ws, (list, tuple)) else ws),
               pad_width=pad_width, kernels=kernels)
    key = (tag, repr(cfg))
    sample = expected_sample(width, ws)
    km = None
    n_cols = len(sample)
    if kernels:
        km = np.eye(n_cols)
        for k in kernels:
            if k[0] == "differences":
                km = diff_matrix(km.shape[0], *k[1:]) @ km
            elif k[0] == "average":
                km = np.full((1, km.shape[0]), 1.0 / km.shape[0]) @ km
    try:
        t = SlidingWindowTransformer(window_width=width, window_stride=stride, window_sample=(tuple(ws) if isinstance(ws, tuple) else ws),
                                     pad_width=pad_width, pad_value=7.0, kernels=kernels)
        out = t.fit_transform([np.asarray(seq)])[0]
    except (IndexError, UnboundLocalError, ZeroDivisionError) as ex:
        R.case(key)
        R.fail("%s/%s" % (tag, type(ex).__name__), "raises %s: %s" % (type(ex).__name__, str(ex)[:80]), **cfg)
        return
    want = reference(seq, width, stride, sample, pad_width, 7.0, km)
    R.case(key, nontrivial=want.size > 0, sample=dict(cfg, rows=int(want.shape[0])))
    out = np.asarray(out, dtype=np.float64)
    if out.shape != want.shape:
        R.fail("%s/shape" % tag, "output shape %r, expected %r (ceil((L-width+1)/stride) windows of the sampled entries)" % (out.shape, want.shape), **cfg)
    elif not np.allclose(out, want, rtol=0, atol=1e-12):
        R.fail("%s/values" % tag, "window contents differ from the in-range elements: got %r expected %r" % (out.tolist()[:3], want.tolist()[:3]), **cfg)


def run(tier, seed):
    R = Recorder("1-d and 2-column sequences of every length in [width, width+2*stride+3], width 1..5, stride 1..3, every window_sample form "
                 "(None, integer stride, (start, stride), index lists incl. permutations/repeats), pad_width 0..2, kernels none/differences/average; "
                 "SequentialDifferenceTransformer stride 1..5. non-trivial = at least one window")
    rng = random.Random(seed)
    widths = range(1, 6 if tier != "quick" else 5)
    for width in widths:
        for stride in (1, 2, 3):
            samples = [None, 1, 2, 3, (0, 2), (1, 2), (1, 1), list(range(width))[::-1] if width != 2 else [1, 0, 1], [0] * width if width != 2 else [0, 0, 0], [0], [width - 1, 0, 0]]
            for L in range(width, width + 2 * stride + 4):
                seq1 = np.arange(1, L + 1, dtype=np.float64) ** 2
                seq2 = np.stack([np.arange(L, dtype=np.float64), 10.0 + np.arange(L) ** 2], axis=1)
                for ws in samples:
                    if isinstance(ws, int) and ws > width:
                        continue
                    if isinstance(ws, tuple) and ws[0] >= width:
                        continue
                    for pad in ((0, 1, 2) if (tier != "quick" or ws is None) else (0,)):
                        check(R, seq1, width, stride, ws, pad, None, "plain")
                    if L <= width + 2:
                        check(R, seq2, width, stride, ws, 0, None, "multivariate")
                for k in ([("differences", 0, 1, 1)], [("differences", 0, 1, 2)], [("differences", 1, 1, 1)], [("differences", 0, 2, 1)], [("average",)]):
                    kk = k[0]
                    if kk[0] == "differences" and kk[1] + kk[2] > width - 1:
                        continue
                    check(R, seq1, width, stride, None, 0, k, "kernel")
    for stride in range(1, 6):
        for L in range(stride + 1, stride + 9):
            x = np.array([rng.randint(-5, 9) for _ in range(L)], dtype=np.float64)
            cfg = dict(sequence=x.tolist(), stride=stride)
            try:
                out = np.asarray(SequentialDifferenceTransformer(stride=stride).fit_transform([x])[0], dtype=np.float64).flatten()
            except (IndexError, UnboundLocalError, ZeroDivisionError) as ex:
                R.case(("seqdiff", stride, L))
                R.fail("seqdiff/%s" % type(ex).__name__, "raises %s" % type(ex).__name__, **cfg)
                continue
            want = x[stride:] - x[:-stride]
            R.case(("seqdiff", stride, L, tuple(x)), sample=dict(cfg, result=out.tolist()) if stride == 2 and L == 5 else None)
            if out.shape != want.shape or not np.allclose(out, want):
                R.fail("seqdiff/values", "SequentialDifferenceTransformer(stride=%d) returned %r, expected x[i+stride]-x[i] = %r" % (stride, out.tolist(), want.tolist()), **cfg)
    R.exhaustive = True
    return R.result()


def replay(case):
    R = Recorder("replay")
    if "stride" in case and "window_width" not in case:
        x = np.array(case["sequence"], dtype=np.float64)
        out = np.asarray(SequentialDifferenceTransformer(stride=case["stride"]).fit_transform([x])[0], dtype=np.float64).flatten()
        want = x[case["stride"]:] - x[:-case["stride"]]
        return out.shape == want.shape and np.allclose(out, want)
    ws = case["window_sample"]
    if isinstance(ws, list) and len(ws) == 2 and case["id"].split("/")[0] != "x":
        pass
    k = case["kernels"]
    k = [tuple(x) for x in k] if k else None
    check(R, np.array(case["sequence"]), case["window_width"], case["window_stride"], ws, case["pad_width"], k, case["id"].split("/")[0])
    return not any(f["id"] == case["id"] for f in R.failures)
