"""C16 bounded driver: LZ compression rows count each string's own parse phrases (BOUNDED)."""
import itertools
import random

import numpy as np

from .driver import Recorder
import vectorizers as V

EXC = (IndexError, KeyError, ValueError, UnboundLocalError, ZeroDivisionError, TypeError)


def lz_parse(s, base, max_size):
    """Independent LZ parse: phrase counts for one string (dictionary starts from `base`)."""
    d = dict(base or {})
    size = len(d)
    start = 0
    for end in range(len(s)):
        ph = s[start:end]
        if ph in d:
            d[ph] += 1
        elif size >= max_size:
            start = end
        else:
            d[ph] = 1
            size += 1
            start = end
    return d


def check(R, X, Xnew, max_dict, base):
    case = dict(X=X, new=Xnew, max_dict_size=max_dict, base_dictionary=base)
    key = ("lz", repr(X), max_dict, repr(base))
    try:
        v = V.LZCompressionVectorizer(max_dict_size=max_dict, base_dictionary=base, max_columns=None)
        M = v.fit_transform(list(X)).toarray()
        Mt = v.transform(list(X) + list(Xnew)).toarray()
    except EXC as ex:
        R.case(key)
        R.fail("lz/%s" % type(ex).__name__, "raises %s: %s" % (type(ex).__name__, str(ex)[:100]), **case)
        return
    cols = dict(v.column_label_dictionary_)
    R.case(key, nontrivial=M.any(), sample=dict(case, row_sums=M.sum(axis=1).tolist()) if M.any() else None)
    if M.shape != (len(X), len(cols)) or Mt.shape != (len(X) + len(Xnew), len(cols)):
        R.fail("lz/shape", "shapes %r / %r for %d columns" % (M.shape, Mt.shape, len(cols)), **case)
        return
    for what, data, mat in (("fit_transform", X, M), ("transform", list(X) + list(Xnew), Mt)):
        for i, s in enumerate(data):
            ref = lz_parse(s, base, max_dict)
            for ph, j in cols.items():
                if mat[i, j] != ref.get(ph, 0):
                    R.fail("lz/%s-count" % what, "%s row %d (%r): phrase %r counted %r, its own LZ parse uses it %d times" % (what, i, s, ph, mat[i, j], ref.get(ph, 0)), **case)
                    return
            if what == "fit_transform":
                capped = len(ref) >= max_dict
                if not capped and mat[i].sum() != len(s) + sum((base or {}).values()):
                    R.fail("lz/row-total", "row %d (%r) sums to %r, string length + base counts is %d" % (i, s, mat[i].sum(), len(s) + sum((base or {}).values())), **case)
                    return
    if not np.array_equal(Mt[:len(X)], M):
        R.fail("lz/column-identity", "transform of the training strings differs from fit_transform (phrase -> column not stable)", **case)


def check_hashed(R, X, max_cols, seed):
    """Compiled only when interpreted hashing overflows (numpy int32 arithmetic): see C10 known finding."""
    case = dict(X=X, max_columns=max_cols, random_state=seed)
    try:
        v = V.LZCompressionVectorizer(max_columns=max_cols, random_state=seed)
        M = v.fit_transform(list(X)).toarray()
        u = V.LZCompressionVectorizer(max_columns=None).fit_transform(list(X)).toarray()
    except OverflowError:
        R.notes.append("hashed LZ skipped under NUMBA_DISABLE_JIT (OverflowError in murmurhash)")
        return
    except EXC as ex:
        R.fail("lzhash/%s" % type(ex).__name__, "raises %s" % type(ex).__name__, **case)
        return
    R.case(("lzhash", repr(X), max_cols, seed))
    if M.shape[1] > max_cols:
        R.fail("lzhash/columns", "%d columns used with max_columns=%d" % (M.shape[1], max_cols), **case)
    if not np.array_equal(M.sum(axis=1), u.sum(axis=1)):
        R.fail("lzhash/row-total", "hashing changed the row totals", **case)


def run(tier, seed):
    R = Recorder("lists of 1..3 strings over {a,b} up to length %d (seeded) plus unicode samples x max_dict_size {2,3,8,65536} x base dictionaries; per-phrase counts vs an "
                 "independent LZ parse for fit_transform and transform (training + unseen strings); row totals; column identity; hashed variant (compiled only). "
                 "non-trivial = non-empty matrix")
    rng = random.Random(seed)
    L = 6 if tier == "quick" else 7
    R.rule = R.rule % L
    strings = ["".join(t) for n in range(0, L + 1) for t in itertools.product("ab", repeat=n)]
    for _ in range(120 if tier == "quick" else 1500):
        X = [rng.choice(strings) for _ in range(rng.randint(1, 3))]
        Xnew = [rng.choice(strings), "", "xyz", "aéa"]
        check(R, X, Xnew, rng.choice([2, 3, 8, 65536]), rng.choice([None, None, {"a": 1}, {"": 2, "b": 1}]))
    check(R, ["", "a", "aaaaaaaa", "中文中文中", "abababab"], ["aaaa", "中"], 65536, None)
    for _ in range(4):
        check_hashed(R, [rng.choice(strings) for _ in range(3)], rng.choice([2, 5, 65536]), rng.randint(0, 99))
    return R.result()


def replay(case):
    R = Recorder("replay")
    if "max_columns" in case:
        check_hashed(R, case["X"], case["max_columns"], case["random_state"])
    else:
        check(R, case["X"], case["new"], case["max_dict_size"], case["base_dictionary"])
    return not any(f["id"] == case["id"] for f in R.failures)
