"""Catalogue of estimators with small training sets and transform-time variants (used by C01, C02, C12, C13)."""
import copy
import itertools
import random

import numpy as np
import scipy.sparse as sp

import vectorizers as V
from vectorizers.transformers import (InformationWeightTransformer, RowDenoisingTransformer, CountFeatureCompressionTransformer,
                                      SlidingWindowTransformer)


def dense(M):
    if sp.issparse(M):
        return np.asarray(M.todense(), dtype=np.float64)
    if isinstance(M, list):
        return M
    return np.asarray(M, dtype=np.float64)


class Entry:
    """One estimator configuration.
    make()      -> fresh estimator
    train       -> training collection (python list / sparse matrix)
    fit_kw      -> extra keyword arguments of fit / transform (vectors=...)
    items(X)    -> list of per-item inputs; join(list of item lists) -> collection (for batching metamorphics)
    variants    -> list of (name, X') transform-time inputs
    width(est)  -> number of columns fixed at fit time
    rowwise     -> one output row per input item
    """

    def __init__(self, name, make, train, variants, width=None, fit_kw=None, tr_kw=None, rowwise=True, exact=True, kw_slice=None):
        self.name, self.make, self.train, self.variants = name, make, train, variants
        self.width, self.fit_kw, self.tr_kw, self.rowwise, self.exact = width, fit_kw or {}, tr_kw if tr_kw is not None else (fit_kw or {}), rowwise, exact
        self.kw_slice = kw_slice

    def fit(self):
        est = self.make()
        est.fit(copy.deepcopy(self.train), **copy.deepcopy(self.fit_kw))
        return est

    def transform(self, est, X, kw=None):
        return est.transform(copy.deepcopy(X), **copy.deepcopy(self.tr_kw if kw is None else kw))


def n_rows(X):
    return X.shape[0] if hasattr(X, "shape") else len(X)


def take(X, idx):
    if hasattr(X, "shape"):
        return X[idx]
    return [X[i] for i in idx]


TOK = [["a", "b", "a", "c"], ["b", "b", "c"], ["a"], [], ["c", "a", "b", "a", "b"]]
TOK_NEW = [["a", "z", "b"], [], ["z", "z"], ["c"], ["a", "b", "a", "c", "a", "b", "a", "c", "b"], ["b", "a"]]
STR = ["abab", "aab", "", "b", "abba", "aaaa"]
STR_NEW = ["ba", "", "a", "abababab", "xyz", "aéb", "bbb"]
NUM = [np.array(x) for x in ([0.5, 1.5, 2.5, 3.0], [1.0, 1.0, 2.0], [4.0], [0.2, 3.9, 2.2, 2.1, 0.7])]
NUM_NEW = [np.array(x) for x in ([1.0, 2.0], [], [0.2], [4.0], [-50.0, 1.0, 99.0], [3.0, 3.0, 3.0, 3.0, 3.0, 3.0])]


def _rng(seed):
    return np.random.RandomState(seed)


def catalogue():
    E = []
    E.append(Entry("Ngram1", lambda: V.NgramVectorizer(), TOK, [("unseen", TOK_NEW), ("train", TOK)], width=lambda e: len(e.column_label_dictionary_)))
    E.append(Entry("Ngram2", lambda: V.NgramVectorizer(ngram_size=2), TOK, [("unseen", TOK_NEW)], width=lambda e: len(e.column_label_dictionary_)))
    E.append(Entry("Ngram2sub", lambda: V.NgramVectorizer(ngram_size=2, ngram_behaviour="subgrams"), TOK, [("unseen", TOK_NEW)], width=lambda e: len(e.column_label_dictionary_)))
    E.append(Entry("NgramMask", lambda: V.NgramVectorizer(min_occurrences=3, mask_string="[M]"), TOK, [("unseen", TOK_NEW)], width=lambda e: len(e.column_label_dictionary_)))
    E.append(Entry("Skipgram", lambda: V.SkipgramVectorizer(window_radius=2), TOK, [("unseen", TOK_NEW), ("subset", [["a", "b"], []]), ("train", TOK)],
                   width=lambda e: len(e.column_label_dictionary_)))
    E.append(Entry("LZ", lambda: V.LZCompressionVectorizer(max_columns=None), STR, [("unseen", STR_NEW), ("train", STR)], width=lambda e: len(e.column_label_dictionary_)))
    E.append(Entry("LZhash", lambda: V.LZCompressionVectorizer(max_columns=4, random_state=3), STR, [("unseen", STR_NEW)], width=lambda e: len(e.column_label_dictionary_)))
    E.append(Entry("LZcap", lambda: V.LZCompressionVectorizer(max_dict_size=3, max_columns=None), STR, [("unseen", STR_NEW)], width=lambda e: len(e.column_label_dictionary_)))
    E.append(Entry("BPEmatrix", lambda: V.BytePairEncodingVectorizer(max_vocab_size=3, return_type="matrix"), STR, [("unseen", STR_NEW), ("train", STR)],
                   width=lambda e: len(e.column_label_dictionary_)))
    E.append(Entry("BPEseq", lambda: V.BytePairEncodingVectorizer(max_vocab_size=3, return_type="sequences"), STR, [("unseen", STR_NEW)], width=None))
    E.append(Entry("BPEtok", lambda: V.BytePairEncodingVectorizer(max_vocab_size=3, return_type="tokens"), STR, [("unseen", STR_NEW)], width=None))
    E.append(Entry("HistUniform", lambda: V.HistogramVectorizer(n_components=4), NUM, [("unseen", NUM_NEW), ("train", NUM)], width=lambda e: len(e.bin_intervals_)))
    E.append(Entry("HistQuantile", lambda: V.HistogramVectorizer(n_components=3, strategy="quantile"), NUM, [("unseen", NUM_NEW)], width=lambda e: len(e.bin_intervals_)))
    E.append(Entry("HistOutlier", lambda: V.HistogramVectorizer(n_components=4, append_outlier_bins=True, absolute_range=(-100.0, 100.0)), NUM, [("unseen", NUM_NEW)],
                   width=lambda e: len(e.bin_intervals_)))
    KD = [x for x in NUM if len(x) > 1]
    E.append(Entry("KDE", lambda: V.KDEVectorizer(n_components=6), KD, [("unseen", [x for x in NUM_NEW if len(x)]), ("train", KD)], width=lambda e: 6, exact=False))
    r = _rng(0)
    clouds = [r.normal(size=(k, 2)) + (i % 2) for i, k in enumerate([5, 6, 4, 7, 5, 6])]
    E.append(Entry("Distribution", lambda: V.DistributionVectorizer(n_components=2, random_state=0), clouds,
                   [("unseen", [r.normal(size=(3, 2)) + 5, r.normal(size=(1, 2)), clouds[0]])], width=lambda e: 2, exact=False))
    # Wasserstein family: 7 distributions over 6 support vectors of dimension 3
    Xw = sp.csr_matrix(np.array([[1, 0, 2, 0, 0, 1], [0, 3, 0, 0, 1, 0], [1, 1, 1, 1, 1, 1], [0, 0, 0, 4, 0, 0], [2, 0, 0, 0, 0, 2], [0, 1, 0, 1, 0, 3], [5, 0, 1, 0, 0, 0]], dtype=np.float64))
    Vw = _rng(1).normal(size=(6, 3))
    Xw_new = sp.csr_matrix(np.array([[0, 0, 0, 0, 0, 7], [1, 2, 0, 0, 0, 0], [3, 3, 3, 3, 3, 3], [0, 0, 1, 0, 0, 0]], dtype=np.float64))
    for nm, mk in (("WassersteinCos", lambda: V.WassersteinVectorizer(n_components=4, random_state=1)),
                   ("WassersteinEuc", lambda: V.WassersteinVectorizer(n_components=4, random_state=1, metric="euclidean", memory_size="1k")),
                   ("WassersteinSinkhornLOT", lambda: V.WassersteinVectorizer(n_components=4, random_state=1, method="LOT_sinkhorn", sinkhorn_chunk_size=2)),
                   ("WassersteinHeuristic", lambda: V.WassersteinVectorizer(n_components=4, random_state=1, method="HeuristicLinearAlgebra")),
                   ("Sinkhorn", lambda: V.SinkhornVectorizer(n_components=4, random_state=1, chunk_size=2)),
                   ("SinkhornBlocks", lambda: V.SinkhornVectorizer(n_components=4, random_state=1, chunk_size=2, memory_size="300")),
                   ("WassersteinBlocks", lambda: V.WassersteinVectorizer(n_components=4, random_state=1, metric="euclidean", memory_size="300")),
                   ("WassersteinSinkhornBlocks", lambda: V.WassersteinVectorizer(n_components=4, random_state=1, method="LOT_sinkhorn", sinkhorn_chunk_size=2, memory_size="300")),
                   ("ApproxWasserstein", lambda: V.ApproximateWassersteinVectorizer(n_components=3, random_state=1))):
        E.append(Entry(nm, mk, Xw, [("unseen", Xw_new), ("train", Xw)], width=lambda e: (e.components_.shape[0] if hasattr(e, "components_") else None),
                       fit_kw=dict(vectors=Vw), exact=False))
    lil = [np.array(Xw[i].data, dtype=np.float64) for i in range(Xw.shape[0])]
    lilv = [Vw[Xw[i].indices] for i in range(Xw.shape[0])]
    lil_new = [np.array(Xw_new[i].data, dtype=np.float64) for i in range(Xw_new.shape[0])]
    lilv_new = [Vw[Xw_new[i].indices] for i in range(Xw_new.shape[0])]
    E.append(Entry("WassersteinLil", lambda: V.WassersteinVectorizer(n_components=4, random_state=1, input_method="lil", metric="euclidean", memory_size="1k"), lil,
                   [("unseen", lil_new), ("train", lil)], width=lambda e: e.components_.shape[0], fit_kw=dict(vectors=lilv), exact=False,
                   kw_slice=lambda kw, idx, name: dict(vectors=[({"unseen": lilv_new, "train": lilv}[name])[i] for i in idx])))
    E[-1].variant_kw = {"unseen": dict(vectors=lilv_new), "train": dict(vectors=lilv)}
    # transformers on count matrices
    C = sp.csr_matrix(np.array([[2, 0, 1, 0, 3], [0, 1, 0, 0, 1], [4, 4, 0, 1, 0], [0, 0, 2, 2, 2], [1, 0, 0, 0, 0], [3, 1, 1, 0, 1]], dtype=np.float64))
    C_new = sp.csr_matrix(np.array([[0, 0, 0, 0, 5], [1, 1, 1, 1, 1], [0, 0, 0, 0, 0], [7, 0, 0, 2, 0]], dtype=np.float64))
    E.append(Entry("InfoWeight", lambda: InformationWeightTransformer(), C, [("unseen", C_new), ("train", C)], width=lambda e: 5, exact=False))
    E.append(Entry("RowDenoise", lambda: RowDenoisingTransformer(em_background_prior=2.0), C, [("unseen", C_new), ("train", C)], width=lambda e: 5, exact=False))
    E.append(Entry("CountFeatureCompression", lambda: CountFeatureCompressionTransformer(n_components=3, random_state=0), C, [("unseen", C_new), ("train", C)],
                   width=lambda e: 3, exact=False))
    E.append(Entry("CountFeatureCompressionId", lambda: CountFeatureCompressionTransformer(n_components=5), C, [("unseen", C_new), ("train", C)], width=lambda e: 5, exact=False))
    S = [np.arange(7.0), np.arange(5.0) ** 2, np.array([3.0, 1.0, 4.0, 1.0, 5.0, 9.0])]
    E.append(Entry("SlidingWindow", lambda: SlidingWindowTransformer(window_width=3, window_stride=2), S,
                   [("unseen", [np.arange(3.0), np.arange(9.0) * 2, np.array([1.0, 2.0, 3.0, 4.0])]), ("train", S)], width=None))
    return E


def variant_kw(entry, name):
    vk = getattr(entry, "variant_kw", None)
    if vk:
        return vk[name]
    return entry.tr_kw


def rows_equal(a, b, exact, tol=1e-9):
    """a, b: outputs for the same number of items (matrix or list)."""
    if isinstance(a, list) or isinstance(b, list):
        if len(a) != len(b):
            return False
        for x, y in zip(a, b):
            x, y = np.asarray(x), np.asarray(y)
            if x.shape != y.shape:
                return False
            if x.dtype.kind in "US" or y.dtype.kind in "US":
                if not np.array_equal(x, y):
                    return False
            elif not np.allclose(x.astype(float), y.astype(float), rtol=0 if exact else tol, atol=0 if exact else tol):
                return False
        return True
    a, b = dense(a), dense(b)
    if a.shape != b.shape:
        return False
    return bool(np.allclose(a, b, rtol=0 if exact else tol, atol=0 if exact else tol))
