"""C17 bounded driver: information weights are KL divergences; transform is a fixed column scaling (BOUNDED)."""
import random

import numpy as np
import scipy.sparse as sp

from .driver import Recorder
from vectorizers.transformers import InformationWeightTransformer
from vectorizers.transformers.info_weight import information_weight

EXC = (IndexError, KeyError, UnboundLocalError, ZeroDivisionError, TypeError, ValueError)


def reference_weights(D, s):
    D = np.asarray(D, dtype=np.float64)
    b = D.sum(axis=1) / D.sum()
    w = np.zeros(D.shape[1])
    for j in range(D.shape[1]):
        q = (D[:, j] + s * b) / (D[:, j].sum() + s)
        t = 0.0
        for qi, bi in zip(q, b):
            if qi > 0 and bi > 0:
                t += qi * np.log(qi / bi)
        w[j] = t
    return w


def encodings(D, rng):
    D = np.asarray(D, dtype=np.float64)
    yield "csr", sp.csr_matrix(D)
    yield "csc", sp.csc_matrix(D)
    yield "coo", sp.coo_matrix(D)
    c = sp.csc_matrix(D)
    # unsorted indices
    for j in range(c.shape[1]):
        lo, hi = c.indptr[j], c.indptr[j + 1]
        if hi - lo >= 2:
            perm = list(range(lo, hi))
            rng.shuffle(perm)
            c.indices[lo:hi] = c.indices[perm].copy()
            c.data[lo:hi] = c.data[perm].copy()
    c.has_sorted_indices = False
    yield "csc-unsorted", c
    # explicit zeros
    r, cc = np.nonzero(D == 0)
    coo = sp.coo_matrix(D)
    if len(r):
        k = rng.randrange(len(r))
        coo = sp.coo_matrix((np.append(coo.data, 0.0), (np.append(coo.row, r[k]), np.append(coo.col, cc[k]))), shape=D.shape)
        e = coo.tocsr()
        yield "csr-explicit-zero", e
    # duplicate coo entries
    nz = np.nonzero(D)
    if len(nz[0]):
        k = rng.randrange(len(nz[0]))
        half = D.copy()
        half[nz[0][k], nz[1][k]] /= 2.0
        c2 = sp.coo_matrix(half)
        yield "coo-duplicates", sp.coo_matrix((np.append(c2.data, half[nz[0][k], nz[1][k]]), (np.append(c2.row, nz[0][k]), np.append(c2.col, nz[1][k]))), shape=D.shape)


def check(R, D, s, rng):
    D = np.asarray(D, dtype=np.float64)
    case = dict(matrix=D.tolist(), prior_strength=s)
    want = reference_weights(D, s)
    for name, X in encodings(D, rng):
        key = ("kl", repr(case), name)
        try:
            w = information_weight(X, prior_strength=s, approximate_prior=False)
        except EXC as ex:
            R.case(key)
            R.fail("weights/%s-%s" % (name, type(ex).__name__), "information_weight raises %s on %s input: %s" % (type(ex).__name__, name, str(ex)[:80]), encoding=name, **case)
            continue
        R.case(key, nontrivial=True, sample=dict(case, encoding=name, weights=np.round(w, 6).tolist()) if name == "csr" else None)
        if not np.all(np.isfinite(w)) or (w < -1e-12).any():
            R.fail("weights/finite-nonneg", "weights %r not finite / non-negative (%s)" % (w.tolist(), name), encoding=name, **case)
        elif not np.allclose(w, want, rtol=1e-7, atol=1e-10):
            R.fail("weights/kl-value", "weights %r, KL divergences %r (%s)" % (np.round(w, 6).tolist(), np.round(want, 6).tolist(), name), encoding=name, **case)
    # permutation behaviour
    pr = list(range(D.shape[0]))
    pc = list(range(D.shape[1]))
    rng.shuffle(pr)
    rng.shuffle(pc)
    try:
        w0 = information_weight(sp.csr_matrix(D), prior_strength=s)
        wr = information_weight(sp.csr_matrix(D[pr]), prior_strength=s)
        wc = information_weight(sp.csr_matrix(D[:, pc]), prior_strength=s)
        R.case(("perm", repr(case)))
        if not np.allclose(w0, wr, rtol=1e-9, atol=1e-12):
            R.fail("weights/row-permutation", "weights change under a row permutation", **case)
        if not np.allclose(w0[pc], wc, rtol=1e-9, atol=1e-12):
            R.fail("weights/column-permutation", "weights do not permute with the columns", **case)
    except EXC:
        pass
    # transformer: linear, zero preserving, fixed non-negative weights
    for power, approx in ((1.0, False), (2.0, False), (1.0, True)):
        try:
            t = InformationWeightTransformer(prior_strength=s, weight_power=power, approx_prior=approx).fit(sp.csr_matrix(D))
            w = np.array(t.information_weights_, dtype=np.float64)
            A = np.abs(D[::-1]) + 1.0 * (D[::-1] > 0)
            out = np.asarray(t.transform(sp.csr_matrix(A)).todense())
            out2 = np.asarray(t.transform(sp.csr_matrix(2.5 * A)).todense())
            w_after = np.array(t.information_weights_, dtype=np.float64)
        except EXC as ex:
            R.fail("transform/%s" % type(ex).__name__, "InformationWeightTransformer raises %s: %s" % (type(ex).__name__, str(ex)[:80]), weight_power=power, approx_prior=approx, **case)
            continue
        R.case(("transform", repr(case), power, approx))
        if not np.all(np.isfinite(w)) or (w < 0).any():
            R.fail("transform/weights-sign", "learned weights %r not finite / non-negative" % w.tolist(), weight_power=power, approx_prior=approx, **case)
        elif not np.allclose(out, A * w[None, :], rtol=1e-10) or not np.allclose(out2, 2.5 * out, rtol=1e-10):
            R.fail("transform/scaling", "transform is not multiplication of each column by its learned weight / not linear", weight_power=power, approx_prior=approx, **case)
        elif ((out != 0) & (A == 0)).any():
            R.fail("transform/creates-nonzero", "transform created a non-zero where the input had none", weight_power=power, approx_prior=approx, **case)
        elif not np.array_equal(w, w_after):
            R.fail("transform/changes-weights", "transform changed information_weights_", weight_power=power, approx_prior=approx, **case)


def run(tier, seed):
    R = Recorder("seeded non-negative count matrices (2..5 rows x 1..5 columns, entries 0..4, empty rows/columns allowed as long as total mass > 0 and >= 2 rows) x "
                 "prior_strength {0.01, 0.1, 1} x storage encodings {csr, csc, coo, csc-unsorted, explicit zeros, duplicate coo entries}: weights vs float64 KL from the "
                 "definition, finite/non-negative, row/column permutation behaviour; transformer linearity / zero preservation / sign. non-trivial = evaluated")
    rng = random.Random(seed)
    for _ in range(40 if tier == "quick" else 500):
        r, c = rng.randint(2, 5), rng.randint(1, 5)
        D = np.array([[rng.choice([0, 0, 1, 2, 4]) for _ in range(c)] for _ in range(r)], dtype=np.float64)
        if D.sum() == 0 or (D.sum(axis=0) == 0).all():
            continue
        check(R, D, rng.choice([0.01, 0.1, 1.0]), rng)
    return R.result()


def replay(case):
    R = Recorder("replay")
    check(R, np.array(case["matrix"]), case["prior_strength"], random.Random(0))
    return not any(f["id"] == case["id"] for f in R.failures)
