"""Contracts for vectorizers/coo_utils.py (C04, C10, C11).

WF(c) is the representation invariant of the CooArray accumulator (DESIGN Appendix A), for every
buffer size N >= 2 and every value LIMIT >= 1 of COO_QUICKSORT_LIMIT (the constant is symbolic)."""
F = "vectorizers/coo_utils.py::"
CONTRACTS = {}
MACROS = {
    "WF": (["c"], (
        "len(c.row) == len(c.key) and len(c.col) == len(c.key) and len(c.val) == len(c.key) and len(c.key) >= 2 "
        "and len(c.ind) == 1 and len(c.depth) == 1 and len(c.min) >= 1 "
        "and 0 <= c.ind[0] and c.ind[0] <= len(c.key) - 1 "
        "and 0 <= c.depth[0] and c.depth[0] <= len(c.min) - 1 "
        "and forall(0, len(c.min), lambda k: abs(c.min[k]) <= c.ind[0]) "
        "and forall(0, len(c.min), lambda j: forall(j, len(c.min), lambda k: abs(c.min[k]) <= abs(c.min[j]))) "
        "and forall(c.depth[0], len(c.min), lambda k: c.min[k] == 0)")),
}
LIMIT = {"COO_QUICKSORT_LIMIT": "int; COO_QUICKSORT_LIMIT >= 1"}
# The run stack `min` has 2*ceil(log2(N)) slots; a new level is opened at most once per call.  That the
# stack never fills up (depth stays O(log #sorts); exceeding it needs > LIMIT*N^2 appends) is ASSUMED.
ROOM = ["coo.depth[0] <= len(coo.min) - 2"]

_MERGE_POST = [
    "WF(coo)",
    "coo.ind[0] <= old(coo.ind[0])",
    "abs(coo.min[0]) == coo.ind[0]",
    "coo.depth[0] <= old(coo.depth[0]) + 1 and coo.depth[0] >= old(coo.depth[0])",
]

_INNER = [  # invariant of the three merge loops of one level
    "a0 <= ptr1 and ptr1 <= coo.min[i] and coo.min[i] <= ptr2 and ptr2 <= coo.ind[0]",
    "0 <= result_ptr and result_ptr <= (ptr1 - a0) + (ptr2 - coo.min[i])",
    "len(result_row) == array_len and len(result_col) == array_len and len(result_val) == array_len and len(result_key) == array_len",
]

CONTRACTS[F + "merge_sum_duplicates"] = dict(
    params=dict(coo="coo"),
    symbolic_consts=LIMIT,
    requires=["WF(coo)"],
    assumed_requires=ROOM,
    modifies=["coo"],
    returns="none",
    ensures=_MERGE_POST,
    ghost_after=[("ptr1 = np.abs(coo.min[i + 1])", 1, "a0 = ptr1")],
    loops={
        "for#1": dict(invariant=[
            "new_depth",
            "0 <= coo.ind[0] and coo.ind[0] <= old(coo.ind[0])",
            "coo.depth[0] == old(coo.depth[0])",
            "forall(0, len(coo.min), lambda k: coo.min[k] == old(coo.min)[k])",
            "forall(i, len(coo.min), lambda k: abs(coo.min[k]) <= coo.ind[0])",
        ]),
        "while#1": dict(invariant=_INNER, decreases="coo.min[i] - ptr1 + coo.ind[0] - ptr2"),
        "while#2": dict(invariant=_INNER, decreases="coo.ind[0] - ptr2"),
        "while#3": dict(invariant=_INNER, decreases="coo.min[i] - ptr1"),
    },
)

CONTRACTS[F + "merge_all_sum_duplicates"] = dict(
    params=dict(coo="coo"),
    symbolic_consts=LIMIT,
    requires=["WF(coo)"],
    assumed_requires=ROOM,
    modifies=["coo"],
    returns="none",
    ensures=_MERGE_POST,
    loops={
        "for#1": dict(invariant=[
            "0 <= ptr and ptr <= i and len(new_min) == coo.depth[0]",
            # the occupied levels, compacted to the front in order; zeros behind
            "forall(0, ptr, lambda k: new_min[k] > 0 and new_min[k] <= coo.ind[0])",
            "forall(0, ptr, lambda j: forall(j, ptr, lambda k: new_min[k] <= new_min[j]))",
            "forall(0, ptr, lambda j: forall(i, len(coo.min), lambda k: abs(coo.min[k]) <= new_min[j]))",
            "forall(ptr, len(new_min), lambda k: new_min[k] == 0)",
        ]),
    },
)

CONTRACTS[F + "coo_sum_duplicates"] = dict(
    params=dict(coo="coo"),
    symbolic_consts=LIMIT,
    requires=["WF(coo)"],
    assumed_requires=ROOM,
    modifies=["coo"],
    returns="none",
    ensures=_MERGE_POST,
    loops={
        "for#1": dict(invariant=[
            "lower_lim <= sum_ind and sum_ind <= i",
            "implies(i > lower_lim, sum_ind < i)",
            "implies(i == lower_lim, this_key == coo.key[i])",
            "coo.ind[0] == upper_lim and coo.depth[0] == old(coo.depth[0])",
            "forall(0, len(coo.min), lambda k: coo.min[k] == old(coo.min)[k])",
        ]),
    },
)

CONTRACTS[F + "coo_increase_mem"] = dict(
    params=dict(coo="coo"),
    symbolic_consts=LIMIT,
    requires=["WF(coo)"],
    returns="coo",
    ensures=[
        "WF(result)",
        "same(result.ind, coo.ind) and same(result.depth, coo.depth)",
        "len(result.key) >= len(coo.key) + 1 and len(result.key) >= COO_QUICKSORT_LIMIT + 1",
        "len(result.min) >= len(coo.min)",
        "forall(0, len(coo.min), lambda k: result.min[k] == coo.min[k])",
        "unchanged(coo.ind) and unchanged(coo.depth) and unchanged(coo.min) and unchanged(coo.key)",
    ],
)

CONTRACTS[F + "coo_append"] = dict(
    params=dict(coo="coo", tup="(int,int,real,int)"),
    symbolic_consts=LIMIT,
    # slot N-1 is the sentinel: the caller must leave two free slots
    requires=["WF(coo)", "coo.ind[0] <= len(coo.key) - 2"],
    assumed_requires=["coo.depth[0] <= len(coo.min) - 5"],
    returns="coo",
    ensures=[
        "WF(result)",
        "result.ind[0] <= len(result.key) - 2",
        "same(result.ind, coo.ind) and same(result.depth, coo.depth)",
    ],
)

# ---------------------------------------------------------------- em_update_matrix (C10, C11)
_EM_PRE = [
    "0 <= target_gram_ind and target_gram_ind + 1 < len(prior_indptr)",
    "0 <= prior_indptr[target_gram_ind] and prior_indptr[target_gram_ind] <= prior_indptr[target_gram_ind + 1] and prior_indptr[target_gram_ind + 1] <= len(prior_indices)",
    "len(prior_indices) == len(prior_data) and len(posterior_data) == len(prior_data)",
    "len(windows) == len(kernels)",
    "forall(0, len(windows), lambda w: len(kernels[w]) == len(windows[w]))",
]
_EM_INV = [
    "len(window_posterior) == total_win_length and len(context_ind) == total_win_length and len(win_offset) == len(windows)",
    "len(posterior_data) == len(prior_data)",
    "len(col_ind) == prior_indptr[target_gram_ind + 1] - prior_indptr[target_gram_ind]",
    # a positive responsibility is only ever recorded for a context that was found in the row
    "forall(0, total_win_length, lambda p: implies(window_posterior[p] > 0, 0 <= context_ind[p] and context_ind[p] < len(col_ind)))",
]
def _gen_em(rng):
    """Small CSR matrix + windows whose contexts may or may not be stored in the target row."""
    import numpy as np
    n = rng.choice([2, 3, 4])
    rows = []
    for _ in range(n):
        cols = sorted(rng.sample(range(2 * n), rng.randint(0, 3)))
        rows.append(cols)
    indptr = np.cumsum([0] + [len(r) for r in rows]).astype(np.int64)
    indices = np.array([c for r in rows for c in r], dtype=np.int64)
    data = np.array([rng.choice([0.25, 0.5, 1.0]) for _ in indices], dtype=np.float64)
    nw = rng.choice([1, 2])
    windows = [np.array([rng.randrange(n) for _ in range(rng.randint(0, 3))], dtype=np.int64) for _ in range(nw)]
    kernels = [np.array([rng.choice([0.0, 0.5, 1.0]) for _ in w], dtype=np.float64) for w in windows]
    return dict(posterior_data=np.zeros_like(data), prior_indices=indices, prior_indptr=indptr, prior_data=data, n_unique_tokens=n,
                target_gram_ind=rng.randrange(n), windows=windows, kernels=kernels)


CONTRACTS[F + "em_update_matrix"] = dict(
    gen_all=_gen_em,
    params=dict(posterior_data="real[]", prior_indices="int[]", prior_indptr="int[]", prior_data="real[]", n_unique_tokens="int", target_gram_ind="int",
                windows="list[int[]]", kernels="list[real[]]"),
    requires=_EM_PRE,
    returns="real[]",
    lemmas=["psum_monotone([len(w) for w in windows])"],
    ensures=["same(result, posterior_data)", "unchanged(prior_data) and unchanged(prior_indices) and unchanged(prior_indptr)"],
    loops={
        "for#1": dict(invariant=_EM_INV),
        "for#2": dict(invariant=_EM_INV),
        "for#3": dict(invariant=_EM_INV),
        "for#4": dict(invariant=_EM_INV),
    },
)
