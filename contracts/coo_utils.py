"""Contracts for vectorizers/coo_utils.py (C04, C10, C11).

WF(c) is the representation invariant of the CooArray accumulator (DESIGN Appendix A), for every
buffer size N >= 2 and every value LIMIT >= 1 of COO_QUICKSORT_LIMIT (the constant is symbolic)."""
F = "vectorizers/coo_utils.py::"
CONTRACTS = {}
MACROS = {
    "WF": (["c"], (
        "len(c.row) == len(c.key) and len(c.col) == len(c.key) and len(c.val) == len(c.key) and len(c.key) >= 2 "
        "and len(c.ind) == 1 and len(c.depth) == 1 and len(c.min) >= 1 "
        "and 0 <= c.ind[0] and c.ind[0] <= len(c.key) - 1 "
        "and 0 <= c.depth[0] and c.depth[0] <= len(c.min) - 1 "
        "and forall(0, len(c.min), lambda k: abs(c.min[k]) <= c.ind[0]) "
        "and forall(0, len(c.min), lambda j: forall(j, len(c.min), lambda k: abs(c.min[k]) <= abs(c.min[j]))) "
        "and forall(c.depth[0], len(c.min), lambda k: c.min[k] == 0)")),
}
# Content of the accumulator (C04: no event lost, duplicated or credited to another cell), for an ARBITRARY key KEY (ghost
# parameter, universally quantified): W(c) is the total value stored under KEY; KEYED(c) says every stored entry has a
# non-negative key and carries the cell (ROWOF(key), COLOF(key)) that its key stands for (ROWOF/COLOF arbitrary functions).
MACROS["W"] = (["c"], "ksum(c.key, c.val, KEY, 0, c.ind[0])")
MACROS["KEYED"] = (["c"], "forall(0, c.ind[0], lambda p: c.key[p] >= 0) and forall(0, c.ind[0], lambda p: c.row[p] == ROWOF(c.key[p])) "
                           "and forall(0, c.ind[0], lambda p: c.col[p] == COLOF(c.key[p]))")
GHOST = {"KEY": "int", "ROWOF": "fn(int)->int", "COLOF": "fn(int)->int"}
CONTRACTS["lemma::ksum"] = dict(lemma=True)
LIMIT = {"COO_QUICKSORT_LIMIT": "int; COO_QUICKSORT_LIMIT >= 1"}
# The run stack `min` has 2*ceil(log2(N)) slots; a new level is opened at most once per call.  That the
# stack never fills up (depth stays O(log #sorts); exceeding it needs > LIMIT*N^2 appends) is ASSUMED.
ROOM = ["coo.depth[0] <= len(coo.min) - 2"]

_MERGE_POST = [
    "WF(coo)",
    "coo.ind[0] <= old(coo.ind[0])",
    "abs(coo.min[0]) == coo.ind[0]",
    "coo.depth[0] <= old(coo.depth[0]) + 1 and coo.depth[0] >= old(coo.depth[0])",
]

_INNER = [  # invariant of the three merge loops of one level
    "a0 <= ptr1 and ptr1 <= coo.min[i] and coo.min[i] <= ptr2 and ptr2 <= coo.ind[0]",
    "0 <= result_ptr and result_ptr <= (ptr1 - a0) + (ptr2 - coo.min[i])",
    "len(result_row) == array_len and len(result_col) == array_len and len(result_val) == array_len and len(result_key) == array_len",
    # content: the result slots 0..result_ptr hold exactly what has been consumed from the two runs (slot 0 is a sentinel
    # with key -1 and value 0 that no real - non-negative - key ever matches)
    "result_key[0] == -1 and result_val[0] == 0",
    "ksum(result_key, result_val, KEY, 0, result_ptr + 1) == ksum(coo.key, coo.val, KEY, a0, ptr1) + ksum(coo.key, coo.val, KEY, coo.min[i], ptr2)",
    # the result arrays are float64 (np.zeros without dtype): gkey is a ghost int64 mirror of result_key, so that "the stored keys are
    # the integer keys that were read" needs no reasoning about truncation
    "len(gkey) == array_len",
    "forall(1, result_ptr + 1, lambda p: result_key[p] == gkey[p] and gkey[p] >= 0)",
    "forall(1, result_ptr + 1, lambda p: result_row[p] == ROWOF(gkey[p]))",
    "forall(1, result_ptr + 1, lambda p: result_col[p] == COLOF(gkey[p]))",
]
_RSNAP = "rk = result_key.copy()\nrv = result_val.copy()"
_RLEMMA = "lemma(ksum_shift(rk, rv, 0, result_key, result_val, 0, KEY, result_ptr))"

CONTRACTS[F + "merge_sum_duplicates"] = dict(
    params=dict(coo="coo"),
    symbolic_consts=LIMIT,
    ghost_params=GHOST,
    requires=["WF(coo)", "KEYED(coo)"],
    assumed_requires=ROOM,
    modifies=["coo"],
    returns="none",
    ensures=_MERGE_POST + ["W(coo) == old(W(coo))", "KEYED(coo)"],
    ghost_after=[
        ("ptr1 = np.abs(coo.min[i + 1])", 1,
         "a0 = ptr1\n"
         "lemma(ksum_split(coo.key, coo.val, KEY, 0, a0, coo.ind[0]))\n"
         "lemma(ksum_split(coo.key, coo.val, KEY, a0, coo.min[i], coo.ind[0]))"),
        # every store into the result arrays goes to slot result_ptr: the keyed sum of the slots below is unchanged
        ("@augassign:ptr1", 1, _RSNAP), ("@augassign:ptr1", 2, _RSNAP), ("@augassign:ptr2", 1, _RSNAP), ("@augassign:ptr2", 2, _RSNAP),
        ("@assign:result_key", 1, "gkey = np.zeros(array_len, dtype=np.int64)"),
    ] + [("@store:result_val", n, _RLEMMA) for n in range(1, 7)]
      + [("@store:result_key", n, _RLEMMA + "\ngkey[result_ptr] = coo.key[this_ptr]") for n in range(2, 5)] + [
        # copy back: slots 1..result_ptr of the result arrays replace [a0, ind); everything below a0 is untouched
        ("@store:coo.row", 1, "bk = coo.key.copy()\nbv = coo.val.copy()"),
        ("@store:coo.ind", 1,
         # what was copied back, stated entry by entry over the integer mirror first (so that neither the lemma premise nor KEYED
         # needs any reasoning about truncation of the float64 result arrays)
         "assert forall(a0, a0 + result_ptr, lambda p: coo.key[p] == gkey[p - a0 + 1])\n"
         "assert forall(a0, a0 + result_ptr, lambda p: coo.val[p] == result_val[p - a0 + 1])\n"
         "assert forall(a0, a0 + result_ptr, lambda p: coo.row[p] == ROWOF(gkey[p - a0 + 1]))\n"
         "assert forall(a0, a0 + result_ptr, lambda p: coo.col[p] == COLOF(gkey[p - a0 + 1]))\n"
         "lemma(ksum_shift(bk, bv, 0, coo.key, coo.val, 0, KEY, a0))\n"
         "lemma(ksum_shift(result_key, result_val, 1, coo.key, coo.val, a0, KEY, result_ptr))\n"
         "lemma(ksum_split(result_key, result_val, KEY, 0, 1, result_ptr + 1))\n"
         "lemma(ksum_split(coo.key, coo.val, KEY, 0, a0, a0 + result_ptr))"),
    ],
    loops={
        "for#1": dict(invariant=[
            "new_depth",
            "0 <= coo.ind[0] and coo.ind[0] <= old(coo.ind[0])",
            "coo.depth[0] == old(coo.depth[0])",
            "forall(0, len(coo.min), lambda k: coo.min[k] == old(coo.min)[k])",
            "forall(i, len(coo.min), lambda k: abs(coo.min[k]) <= coo.ind[0])",
            "W(coo) == old(W(coo))", "KEYED(coo)",
        ]),
        "while#1": dict(invariant=_INNER, decreases="coo.min[i] - ptr1 + coo.ind[0] - ptr2"),
        "while#2": dict(invariant=_INNER, decreases="coo.ind[0] - ptr2"),
        "while#3": dict(invariant=_INNER, decreases="coo.min[i] - ptr1"),
    },
)

CONTRACTS[F + "merge_all_sum_duplicates"] = dict(
    params=dict(coo="coo"),
    symbolic_consts=LIMIT,
    ghost_params=GHOST,
    requires=["WF(coo)", "KEYED(coo)"],
    assumed_requires=ROOM,
    modifies=["coo"],
    returns="none",
    ensures=_MERGE_POST + ["W(coo) == old(W(coo))", "KEYED(coo)"],
    loops={
        "for#1": dict(invariant=[
            "0 <= ptr and ptr <= i and len(new_min) == coo.depth[0]",
            # the occupied levels, compacted to the front in order; zeros behind
            "forall(0, ptr, lambda k: new_min[k] > 0 and new_min[k] <= coo.ind[0])",
            "forall(0, ptr, lambda j: forall(j, ptr, lambda k: new_min[k] <= new_min[j]))",
            "forall(0, ptr, lambda j: forall(i, len(coo.min), lambda k: abs(coo.min[k]) <= new_min[j]))",
            "forall(ptr, len(new_min), lambda k: new_min[k] == 0)",
        ]),
    },
)

_KEYED_AT = "coo.key[{p}] >= 0 and coo.row[{p}] == ROWOF(coo.key[{p}]) and coo.col[{p}] == COLOF(coo.key[{p}])"
_FLUSH_SNAP = "bk = coo.key.copy()\nbv = coo.val.copy()"
_FLUSH_LEMMA = "lemma(ksum_shift(bk, bv, lower_lim, coo.key, coo.val, lower_lim, KEY, sum_ind - lower_lim))"
CONTRACTS[F + "coo_sum_duplicates"] = dict(
    params=dict(coo="coo"),
    symbolic_consts=LIMIT,
    ghost_params=GHOST,
    requires=["WF(coo)", "KEYED(coo)"],
    assumed_requires=ROOM,
    modifies=["coo"],
    returns="none",
    ensures=_MERGE_POST + ["W(coo) == old(W(coo))", "KEYED(coo)"],
    ghost_after=[
        # the sort: the stretch [lower_lim, upper_lim) is permuted (argsort's stated contract: an injection of [0,n) into itself),
        # everything below it is untouched; gk/gv name the arrays as they are after the sort
        ("@store:coo.key", 1,
         "lemma(ksum_perm(old(coo.key), old(coo.val), coo.key, coo.val, perm, KEY, lower_lim, upper_lim - lower_lim))\n"
         "lemma(ksum_shift(old(coo.key), old(coo.val), 0, coo.key, coo.val, 0, KEY, lower_lim))\n"
         "lemma(ksum_split(old(coo.key), old(coo.val), KEY, 0, lower_lim, upper_lim))\n"
         "gk = coo.key.copy()\ngv = coo.val.copy()"),
        # a flush writes slot sum_ind only: the keyed sum of the slots below it is unchanged
        ("@store:coo.row", 2, _FLUSH_SNAP), ("@store:coo.key", 2, _FLUSH_LEMMA),
        ("@store:coo.row", 3, _FLUSH_SNAP), ("@store:coo.key", 3, _FLUSH_LEMMA),
        ("@store:coo.ind", 1,
         "lemma(ksum_shift(gk, gv, 0, coo.key, coo.val, 0, KEY, lower_lim))\n"
         "lemma(ksum_split(coo.key, coo.val, KEY, 0, lower_lim, sum_ind))\n"
         "assert W(coo) == old(W(coo))"),
    ],
    loops={
        "for#1": dict(invariant=[
            "lower_lim <= sum_ind and sum_ind <= i",
            "implies(i > lower_lim, sum_ind < i)",
            "implies(i == lower_lim, this_key == coo.key[i])",
            "coo.ind[0] == upper_lim and coo.depth[0] == old(coo.depth[0])",
            "forall(0, len(coo.min), lambda k: coo.min[k] == old(coo.min)[k])",
            # content: written slots + the pending group == what has been read of the sorted stretch; the rest is as sorted
            "len(gk) == len(coo.key) and len(gv) == len(coo.key)",
            "forall(0, lower_lim, lambda p: coo.key[p] == gk[p] and coo.val[p] == gv[p])",
            "forall(i, upper_lim, lambda p: coo.key[p] == gk[p] and coo.val[p] == gv[p])",
            "ksum(coo.key, coo.val, KEY, lower_lim, sum_ind) + ite(this_key == KEY, this_val, 0) == ksum(gk, gv, KEY, lower_lim, i)",
            "forall(0, sum_ind, lambda p: %s)" % _KEYED_AT.format(p="p"),
            "forall(i, upper_lim, lambda p: %s)" % _KEYED_AT.format(p="p"),
            "implies(upper_lim > lower_lim, this_key >= 0 and this_row == ROWOF(this_key) and this_col == COLOF(this_key))",
        ]),
    },
)

CONTRACTS[F + "coo_increase_mem"] = dict(
    params=dict(coo="coo"),
    symbolic_consts=LIMIT,
    ghost_params=GHOST,
    requires=["WF(coo)"],
    returns="coo",
    ghost_exit=["lemma(ksum_shift(old(coo.key), old(coo.val), 0, result.key, result.val, 0, KEY, old(coo.ind[0])))"],
    ensures=[
        "WF(result)",
        "W(result) == old(W(coo))",
        "implies(old(KEYED(coo)), KEYED(result))",
        "same(result.ind, coo.ind) and same(result.depth, coo.depth)",
        "len(result.key) >= len(coo.key) + 1 and len(result.key) >= COO_QUICKSORT_LIMIT + 1",
        "len(result.min) >= len(coo.min)",
        "forall(0, len(coo.min), lambda k: result.min[k] == coo.min[k])",
        "unchanged(coo.ind) and unchanged(coo.depth) and unchanged(coo.min) and unchanged(coo.key)",
    ],
)

CONTRACTS[F + "coo_append"] = dict(
    params=dict(coo="coo", tup="(int,int,real,int)"),
    symbolic_consts=LIMIT,
    # slot N-1 is the sentinel: the caller must leave two free slots
    ghost_params=GHOST,
    requires=["WF(coo)", "coo.ind[0] <= len(coo.key) - 2", "KEYED(coo)",
              # the appended event carries a non-negative key and the cell that key stands for
              "tup[3] >= 0 and tup[0] == ROWOF(tup[3]) and tup[1] == COLOF(tup[3])"],
    assumed_requires=["coo.depth[0] <= len(coo.min) - 5"],
    # the passed accumulator is written in place (and possibly superseded by a reallocated one): callers must use the result
    modifies=["coo"],
    returns="coo",
    ghost_after=[("@store:coo.row", 1, "bk = coo.key.copy()\nbv = coo.val.copy()"),
                 ("@store:coo.ind", 1, "lemma(ksum_shift(bk, bv, 0, coo.key, coo.val, 0, KEY, coo.ind[0] - 1))\n"
                                       "assert W(coo) == old(W(coo)) + ite(tup[3] == KEY, tup[2], 0)")],
    ensures=[
        "WF(result)",
        # C04: the total stored under every key grows by exactly the appended value (if it is this key) - whatever sorting,
        # merging or reallocation the call triggered; and every stored entry still carries the cell of its key
        "W(result) == old(W(coo)) + ite(tup[3] == KEY, tup[2], 0)",
        "KEYED(result)",
        "result.ind[0] <= len(result.key) - 2",
        "same(result.ind, coo.ind) and same(result.depth, coo.depth)",
    ],
)

# ---------------------------------------------------------------- em_update_matrix (C10, C11)
_EM_PRE = [
    "0 <= target_gram_ind and target_gram_ind + 1 < len(prior_indptr)",
    "0 <= prior_indptr[target_gram_ind] and prior_indptr[target_gram_ind] <= prior_indptr[target_gram_ind + 1] and prior_indptr[target_gram_ind + 1] <= len(prior_indices)",
    "len(prior_indices) == len(prior_data) and len(posterior_data) == len(prior_data)",
    "len(windows) == len(kernels)",
    "forall(0, len(windows), lambda w: len(kernels[w]) == len(windows[w]))",
]
_EM_INV = [
    "len(window_posterior) == total_win_length and len(context_ind) == total_win_length and len(win_offset) == len(windows)",
    "len(posterior_data) == len(prior_data)",
    "len(col_ind) == prior_indptr[target_gram_ind + 1] - prior_indptr[target_gram_ind]",
    # a positive responsibility is only ever recorded for a context that was found in the row
    "forall(0, total_win_length, lambda p: implies(window_posterior[p] > 0, 0 <= context_ind[p] and context_ind[p] < len(col_ind)))",
]
def _gen_em(rng):
    """Small CSR matrix + windows whose contexts may or may not be stored in the target row."""
    import numpy as np
    n = rng.choice([2, 3, 4])
    rows = []
    for _ in range(n):
        cols = sorted(rng.sample(range(2 * n), rng.randint(0, 3)))
        rows.append(cols)
    indptr = np.cumsum([0] + [len(r) for r in rows]).astype(np.int64)
    indices = np.array([c for r in rows for c in r], dtype=np.int64)
    data = np.array([rng.choice([0.25, 0.5, 1.0]) for _ in indices], dtype=np.float64)
    nw = rng.choice([1, 2])
    windows = [np.array([rng.randrange(n) for _ in range(rng.randint(0, 3))], dtype=np.int64) for _ in range(nw)]
    kernels = [np.array([rng.choice([0.0, 0.5, 1.0]) for _ in w], dtype=np.float64) for w in windows]
    return dict(posterior_data=np.zeros_like(data), prior_indices=indices, prior_indptr=indptr, prior_data=data, n_unique_tokens=n,
                target_gram_ind=rng.randrange(n), windows=windows, kernels=kernels)


CONTRACTS[F + "em_update_matrix"] = dict(
    gen_all=_gen_em,
    params=dict(posterior_data="real[]", prior_indices="int[]", prior_indptr="int[]", prior_data="real[]", n_unique_tokens="int", target_gram_ind="int",
                windows="list[int[]]", kernels="list[real[]]"),
    requires=_EM_PRE,
    returns="real[]",
    lemmas=["psum_monotone([len(w) for w in windows])"],
    modifies=["posterior_data"],
    ensures=["same(result, posterior_data)", "unchanged(prior_data) and unchanged(prior_indices) and unchanged(prior_indptr)"],
    loops={
        "for#1": dict(invariant=_EM_INV),
        "for#2": dict(invariant=_EM_INV),
        "for#3": dict(invariant=_EM_INV),
        "for#4": dict(invariant=_EM_INV),
    },
)


# ---------------------------------------------------------------- run-time inputs (engine cross-check, replay search)
def _ghost_env(g):
    m = g["MUL"]
    return dict(KEY=g["KEY"], ROWOF=lambda k: int(k) // m, COLOF=lambda k: int(k) % m)


def _gen_coo_state(rng):
    """An accumulator state reached by the REAL coo_append from an empty buffer (so it is well-formed by construction), with a
    small sort threshold so that sorting, multi-level merging and growth all happen; keys are col + MUL * row."""
    import numpy as np
    import vectorizers.coo_utils as cu
    limit = rng.choice([2, 3, 4, 8, 1 << 16])
    n = rng.choice([8, 9, 12, 16, 40])
    mul = rng.choice([3, 5])
    coo = cu.CooArray(np.zeros(n, dtype=np.int32), np.zeros(n, dtype=np.int32), np.zeros(n, dtype=np.float32), np.zeros(n, dtype=np.int64),
                      np.zeros(1, dtype=np.int64), np.zeros(2 * int(np.ceil(np.log2(n))), dtype=np.int64), np.zeros(1, dtype=np.int64))
    fn = getattr(cu.coo_append, "py_func", cu.coo_append)
    saved = cu.COO_QUICKSORT_LIMIT
    cu.COO_QUICKSORT_LIMIT = limit
    try:
        for _ in range(rng.choice([0, 1, 2, 3, 5, 7, 11, 20, 35])):
            if coo.depth[0] > len(coo.min) - 5 or coo.ind[0] > len(coo.key) - 2:
                break
            r, c = rng.randrange(3), rng.randrange(mul)
            coo = fn(coo, (r, c, rng.choice([0.25, 0.5, 1.0, 2.0]), c + mul * r))
    finally:
        cu.COO_QUICKSORT_LIMIT = saved
    keys = sorted({int(k) for k in coo.key[:coo.ind[0]]} | {-1, 0, 1})
    return coo, mul, dict(__consts__=dict(COO_QUICKSORT_LIMIT=limit), __ghost__=[dict(KEY=k, MUL=mul) for k in keys])


def _gen_coo(rng):
    coo, mul, extra = _gen_coo_state(rng)
    return dict(extra, coo=coo)


def _gen_append(rng):
    coo, mul, extra = _gen_coo_state(rng)
    r, c = rng.randrange(3), rng.randrange(mul)
    return dict(extra, coo=coo, tup=(r, c, rng.choice([0.25, 0.5, 1.0]), c + mul * r))


for _f in ("merge_sum_duplicates", "merge_all_sum_duplicates", "coo_sum_duplicates", "coo_increase_mem"):
    CONTRACTS[F + _f].update(gen_all=_gen_coo, ghost_env=_ghost_env)
CONTRACTS[F + "coo_append"].update(gen_all=_gen_append, ghost_env=_ghost_env)
