"""Contracts for vectorizers/_vectorizers.py: bin construction helpers of HistogramVectorizer (C20).
A pandas IntervalIndex is modelled as a list of (left, right) records (right-closed intervals)."""
F = "vectorizers/_vectorizers.py::"
CONTRACTS = {}
_IDX = "list[(left:real,right:real)]"
_PART = "forall(0, len({x}) - 1, lambda k: {x}[k].right == {x}[k + 1].left) and forall(0, len({x}), lambda k: {x}[k].left <= {x}[k].right)"

CONTRACTS[F + "expand_boundaries"] = dict(
    params=dict(my_interval_index=_IDX, absolute_range="(real,real)"),
    requires=["len(my_interval_index) >= 1", _PART.format(x="my_interval_index"), "absolute_range[0] <= absolute_range[1]"],
    returns=_IDX,
    ensures=[
        "len(result) == len(my_interval_index)",
        # still contiguous; the outer edges reach the absolute range; interior break points unchanged
        "forall(0, len(result) - 1, lambda k: result[k].right == result[k + 1].left)",
        "result[0].left == min(my_interval_index[0].left, absolute_range[0])",
        "result[len(result) - 1].right == max(my_interval_index[len(result) - 1].right, absolute_range[1])",
        "forall(0, len(result) - 1, lambda k: result[k].right == my_interval_index[k].right)",
        "unchanged(my_interval_index)",
    ],
)
CONTRACTS[F + "add_outier_bins"] = dict(
    params=dict(my_interval_index=_IDX, absolute_range="(real,real)"),
    requires=["len(my_interval_index) >= 1", _PART.format(x="my_interval_index"), "absolute_range[0] <= absolute_range[1]"],
    returns=_IDX,
    ensures=[
        # exactly one extra bin per side on which the absolute range is strictly wider (no degenerate empty bin when it is equal)
        "len(result) == len(my_interval_index) + (1 if my_interval_index[0].left > absolute_range[0] else 0) + "
        "(1 if my_interval_index[len(my_interval_index) - 1].right < absolute_range[1] else 0)",
        "forall(0, len(result), lambda k: result[k].left <= result[k].right)",
        "forall(0, len(result) - 1, lambda k: result[k].right == result[k + 1].left)",
        "result[0].left == min(my_interval_index[0].left, absolute_range[0])",
        "result[len(result) - 1].right == max(my_interval_index[len(my_interval_index) - 1].right, absolute_range[1])",
        "unchanged(my_interval_index)",
    ],
)

CONTRACTS[F + "find_bin_boundaries"] = dict(
    params=dict(flat="list[real]", n_bins="int"),
    requires=["len(flat) >= 1", "n_bins >= 1"],
    modifies=["flat"],
    returns="real[]",
    ensures=[
        # the break points are strictly increasing values of the (sorted) data, starting at its minimum
        "len(result) >= 1 and len(result) <= len(flat)",
        "strictly_increasing(result)",
        "result[0] == flat[0]",
    ],
    loops={"for#1": dict(invariant=[
        "len(bin_indices) >= 1 and bin_indices[0] == 0 and len(bin_indices) <= i",
        "forall(0, len(bin_indices), lambda k: 0 <= bin_indices[k] and bin_indices[k] < i)",
        "strictly_increasing(bin_indices)",
        "forall(0, len(bin_indices) - 1, lambda k: flat[bin_indices[k]] < flat[bin_indices[k + 1]])",
        "len(flat_csum) == len(flat)",
    ])},
)


def _gen_intervals(rng):
    import pandas as pd
    n = rng.choice([1, 1, 2, 3, 4])
    start = rng.choice([0.0, 1.0, -2.0])
    breaks = [start]
    for _ in range(n):
        breaks.append(breaks[-1] + rng.choice([0.5, 1.0, 2.0]))
    lo = rng.choice([float("-inf"), breaks[0] - 1.0, breaks[0], breaks[0] + 0.25])
    hi = rng.choice([float("inf"), breaks[-1] + 1.0, breaks[-1], breaks[-1] - 0.25])
    if lo > hi:
        lo, hi = hi, lo
    return dict(my_interval_index=pd.IntervalIndex.from_breaks(breaks), absolute_range=(lo, hi))


CONTRACTS[F + "expand_boundaries"]["gen_all"] = _gen_intervals
CONTRACTS[F + "add_outier_bins"]["gen_all"] = _gen_intervals
