"""Sidecar contracts, one module per repository module.  Data only."""
import importlib
import pkgutil


def load_all():
    contracts, macros, props = {}, {}, {}
    for m in pkgutil.iter_modules(__path__):
        mod = importlib.import_module(__name__ + "." + m.name)
        for qn, c in getattr(mod, "CONTRACTS", {}).items():
            if qn in contracts:
                raise ValueError("duplicate contract " + qn)
            contracts[qn] = c
        macros.update(getattr(mod, "MACROS", {}))
    return contracts, macros
