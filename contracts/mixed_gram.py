"""Contracts for vectorizers/mixed_gram_vectorizer.py (C09, C10, C16)."""
F = "vectorizers/mixed_gram_vectorizer.py::"
CONTRACTS = {}
MACROS = {
    # position p of `a` starts an occurrence of the pair
    "match": (["a", "p", "pair"], "p + 1 < len(a) and a[p] == pair[0] and a[p + 1] == pair[1]"),
}

# Witness postcondition (lossless, greedy left-to-right, non-overlapping): ghost array src maps each
# output position to the input position it was produced from.
_WITNESS = ("forall(0, {n}, lambda j: ({out}[j] == char_list[src[j]] and src[j + 1] == src[j] + 1 and not match(char_list, src[j], pair_to_contract))"
            " or ({out}[j] == new_code and match(char_list, src[j], pair_to_contract) and src[j + 1] == src[j] + 2))")

CONTRACTS[F + "contract_pair"] = dict(
    params=dict(char_list="int[]", pair_to_contract="(int,int)", new_code="int"),
    requires=[],
    ghost_init="src = np.zeros(len(char_list) + 1, dtype=np.int64)",
    ghost_after=[
        ("new_char_index += 1", 1, "src[new_char_index] = i + 1 + (1 if skip_char else 0)"),
        ("new_char_index += 1", 2, "src[new_char_index] = len(char_list)"),
    ],
    ensures=[
        "len(result) <= len(char_list)",
        "src[0] == 0 and src[len(result)] == len(char_list)",
        _WITNESS.format(n="len(result)", out="result"),
        "unchanged(char_list)",
    ],
    loops={
        "for#1": dict(invariant=[
            "0 <= new_char_index and new_char_index <= i and src[0] == 0",
            "src[new_char_index] == i + (1 if skip_char else 0)",
            "implies(skip_char, i >= 1 and i + 1 <= len(char_list))",
            "len(src) == len(char_list) + 1 and len(new_char_list) == len(char_list) and len_char_list == len(char_list)",
            _WITNESS.format(n="new_char_index", out="new_char_list"),
        ]),
    },
)
