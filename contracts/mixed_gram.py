"""Contracts for vectorizers/mixed_gram_vectorizer.py (C09, C10, C16)."""
F = "vectorizers/mixed_gram_vectorizer.py::"
CONTRACTS = {}
MACROS = {
    # position p of `a` starts an occurrence of the pair
    "match": (["a", "p", "pair"], "p + 1 < len(a) and a[p] == pair[0] and a[p + 1] == pair[1]"),
}

# Witness postcondition (lossless, greedy left-to-right, non-overlapping): ghost array src maps each
# output position to the input position it was produced from.
_WITNESS = ("forall(0, {n}, lambda j: ({out}[j] == char_list[src[j]] and src[j + 1] == src[j] + 1 and not match(char_list, src[j], pair_to_contract))"
            " or ({out}[j] == new_code and match(char_list, src[j], pair_to_contract) and src[j + 1] == src[j] + 2))")

CONTRACTS[F + "contract_pair"] = dict(
    params=dict(char_list="int[]", pair_to_contract="(int,int)", new_code="int"),
    requires=[],
    ghost_init="src = np.zeros(len(char_list) + 1, dtype=np.int64)",
    ghost_after=[
        ("@augassign:new_char_index", 1, "src[new_char_index] = i + 1 + (1 if skip_char else 0)"),
        ("@augassign:new_char_index", 2, "src[new_char_index] = len(char_list)"),
    ],
    returns="int[]",
    ensures=["len(result) <= len(char_list)", "unchanged(char_list)"],
    ensures_ghost=[  # proved here; they mention the ghost witness, so callers do not see them
        "src[0] == 0 and src[len(result)] == len(char_list)",
        _WITNESS.format(n="len(result)", out="result"),
    ],
    loops={
        "for#1": dict(invariant=[
            "0 <= new_char_index and new_char_index <= i and src[0] == 0",
            "src[new_char_index] == i + (1 if skip_char else 0)",
            "implies(skip_char, i >= 1 and i + 1 <= len(char_list))",
            "len(src) == len(char_list) + 1 and len(new_char_list) == len(char_list) and len_char_list == len(char_list)",
            _WITNESS.format(n="new_char_index", out="new_char_list"),
        ]),
    },
)

# contract_and_count_pairs: same witness postcondition for the returned array, plus key-safety of every
# pair_counts access (all are guarded by `in` or are stores).
CONTRACTS[F + "contract_and_count_pairs"] = dict(
    params=dict(char_list="int[]", pair_to_contract="(int,int)", pair_counts="dict[pair,int]", new_code="int"),
    requires=[],
    modifies=["pair_counts"],
    returns="(int[],dict[pair,int])",
    ghost_init="src = np.zeros(len(char_list) + 1, dtype=np.int64)",
    ghost_after=[
        ("@augassign:new_char_index", 1, "src[new_char_index] = i + 1 + (1 if skip_char else 0)"),
        ("@augassign:new_char_index", 2, "src[new_char_index] = len(char_list)"),
    ],
    ensures=["len(result[0]) <= len(char_list)", "unchanged(char_list)"],
    returns_alias_tuple=None,
    ensures_ghost=[
        "src[0] == 0 and src[len(result[0])] == len(char_list)",
        _WITNESS.format(n="len(result[0])", out="result[0]"),
        "same(result[1], pair_counts)",
    ],
    loops={
        "for#1": dict(invariant=[
            "0 <= new_char_index and new_char_index <= i and src[0] == 0",
            "src[new_char_index] == i + (1 if skip_char else 0)",
            "implies(skip_char, i >= 1 and i + 1 <= len(char_list))",
            "len(src) == len(char_list) + 1 and len(new_char_list) == len(char_list) and len_char_list == len(char_list)",
            _WITNESS.format(n="new_char_index", out="new_char_list"),
        ]),
    },
)

CONTRACTS[F + "bpe_encode"] = dict(
    params=dict(chars="str", code_list="list[(int,int)]", max_char_code="int"),
    requires=["max_char_code >= 0"],
    returns="int[]",
    ensures=["len(result) <= len(chars)"],
    # characters above max_char_code become code 0, the others keep their code point; the k-th learned pair is contracted into
    # code max_char_code + 1 + k (the numbering that ties tokens_[k] to its code when decoding)
    ghost_after=[("@assign:new_code", 1,
                  "assert forall(0, len(chars), lambda k: compressed_chars[k] == (ord(chars[k]) if ord(chars[k]) <= max_char_code else 0))")],
    loops={
        "for#1": dict(invariant=["len(compressed_chars) == len(chars)",
                                 "forall(0, i, lambda k: compressed_chars[k] == (ord(chars[k]) if ord(chars[k]) <= max_char_code else 0))"]),
        "for#2": dict(invariant=["len(compressed_chars) <= len(chars)", "new_code == max_char_code + 1 + _k_for2"]),
    },
)

CONTRACTS[F + "count_pairs"] = dict(
    params=dict(char_list="list[int[]]"), requires=[], returns="dict[pair,int]", ensures=[],
    local_types=dict(result="dict[pair,int]"),
)

CONTRACTS[F + "unicode_string_to_int_array"] = dict(
    params=dict(string="str"), requires=[], returns="int[]",
    ensures=["len(result) == len(string)", "forall(0, len(result), lambda k: result[k] == ord(string[k]))"],
    loops={"for#1": dict(invariant=["len(result) == len(string)", "forall(0, i, lambda k: result[k] == ord(string[k]))"])},
)

CONTRACTS[F + "murmurhash"] = dict(
    params=dict(key="int[]", seed="int"), requires=["seed >= 0", "forall(0, len(key), lambda k: key[k] >= 0)"], returns="int",
    ensures=["result >= 0"],
    loops={"for#1": dict(invariant=["h >= 0"])},
)

# LZ parse: `start <= end` keeps every slice well formed; size bookkeeping
CONTRACTS[F + "lempel_ziv_based_encode"] = dict(
    params=dict(string="str", dictionary="dict[str,int]", hash_function="func", max_size="int"),
    func_params={"hash_function": dict(returns="keyfn")},
    requires=[],
    modifies=["dictionary"],
    # ghost accounting: every position of the string does exactly one of (count an existing phrase, add a new phrase with count 1,
    # skip because the dictionary is full); so the sum of the counts grows by len(string) - skipped
    ghost_init="g_counted = 0\ng_capped = 0",
    ghost_after=[("dictionary[ngram] += 1", 1, "g_counted = g_counted + 1"), ("dictionary[ngram] = 1", 1, "g_counted = g_counted + 1"),
                 ("@assign:start", 2, "g_capped = g_capped + 1")],
    ensures=["same(result, dictionary)"],
    ensures_ghost=["g_counted + g_capped == len(string)", "implies(max_size > old(card(dictionary)) + len(string), g_capped == 0)"],
    loops={"for#1": dict(invariant=["0 <= start and start <= end", "current_size >= card(dictionary)", "g_counted + g_capped == end",
                                    "g_capped >= 0 and g_counted >= 0", "current_size <= old(card(dictionary)) + g_counted",
                                    # the cap: the dictionary never grows beyond max_size phrases (unless it already was larger)
                                    "current_size <= max(old(card(dictionary)), max_size)",
                                    "implies(max_size > old(card(dictionary)) + len(string), g_capped == 0)"])},
)

CONTRACTS[F + "counts_to_csr_data"] = dict(
    params=dict(count_dict="dict[int,int]", column_dict="dict[int,int]"),
    # the column dictionary numbers its entries 0..size-1 (how the vectorizer builds it: only through this function)
    gen={"column_dict": lambda rng: {k: i for i, k in enumerate(rng.sample(range(-3, 9), rng.choice([0, 1, 2, 3, 4])))},
         "count_dict": lambda rng: {k: rng.choice([1, 2, 3]) for k in rng.sample(range(-3, 9), rng.choice([0, 1, 2, 3]))}},
    requires=["not same(count_dict, column_dict)", "dict_values_in(column_dict, 0, card(column_dict))"],
    modifies=["column_dict"],
    ensures=[
        "len(result[0]) == len(result[1]) and len(result[0]) == card(count_dict)",
        "unchanged(count_dict)",
        # still numbered 0..size-1, only ever grown, and every emitted column index is a column of the (grown) dictionary
        "dict_values_in(column_dict, 0, card(column_dict))",
        "card(column_dict) >= old(card(column_dict))",
        "forall(0, len(result[0]), lambda k: 0 <= result[0][k] and result[0][k] < card(column_dict))",
    ],
    loops={"for#1": dict(invariant=[
        "len(indices) == _k_for1 and len(data) == _k_for1",
        "col_dict_size == card(column_dict) and col_dict_size >= old(card(column_dict))",
        "dict_values_in(column_dict, 0, col_dict_size)",
        "forall(0, len(indices), lambda k: 0 <= indices[k] and indices[k] < col_dict_size)",
    ])},
)

# bytes of a string for the hashed LZ variant: characters above 255 are bracketed by zero bytes (memory / definedness only)
CONTRACTS[F + "unicode_to_uint8"] = dict(
    params=dict(string="str"), requires=[], returns="list[int]",
    local_types=dict(result="list[int]"),
    ensures=["len(result) >= len(string)", "forall(0, len(result), lambda k: 0 <= result[k] and result[k] <= 255)"],
    loops={"for#1": dict(invariant=["len(result) >= _k_for1", "forall(0, len(result), lambda k: 0 <= result[k] and result[k] <= 255)"]),
           "while#1": dict(invariant=["ord_char >= 0", "len(result) >= _k_for1", "forall(0, len(result), lambda k: 0 <= result[k] and result[k] <= 255)"],
                           decreases="ord_char")},
)


# pair_length: token length of a merged pair; codes above max_char_code are looked up in the length table (C09 / C10: no KeyError
# as long as every learned code of the pair has an entry - bpe_train adds the entry of a new code before that code can occur in a pair)
CONTRACTS[F + "pair_length"] = dict(
    params=dict(pair="(int,int)", pair_lengths="dict[int,int]", max_char_code="int"),
    requires=["implies(pair[0] > max_char_code, pair[0] in pair_lengths)", "implies(pair[1] > max_char_code, pair[1] in pair_lengths)"],
    returns="int",
    ensures=["result == (1 if pair[0] <= max_char_code else pair_lengths[pair[0]]) + (1 if pair[1] <= max_char_code else pair_lengths[pair[1]])",
             "unchanged(pair_lengths)"],
)
