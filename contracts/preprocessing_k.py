"""Contracts on segments of vectorizers/preprocessing.py::prune_token_dictionary (C05).

The function mixes sets, regular expressions and np.where, which are outside pyvc's subset; the arithmetic that decides
*which bound a count is compared with* is verified on mechanically extracted segments (statement ranges of the real
function), one per constraint, for every combination of `None` / given."""
F = "vectorizers/preprocessing.py::"
CONTRACTS = {}


def conv(seg_ordinal, occ, freq, total, lower):
    """The k-th `if <occ> is None:` block converting an occurrence bound into a frequency bound."""
    post = []
    if lower:
        post = [
            # no bound given at all: nothing can be below it
            "implies(is_none(old(%s)) and is_none(old(%s)), %s == 0)" % (occ, freq, freq),
            # an occurrence bound becomes exactly occurrences / total: a token occurring exactly the bound has count/total == bound, not < bound
            "implies(not is_none(old(%s)), %s * %s == %s)" % (occ, freq, total, occ),
            "implies(is_none(old(%s)) and not is_none(old(%s)), %s == old(%s))" % (occ, freq, freq, freq),
        ]
    else:
        post = [
            "implies(is_none(old(%s)) and is_none(old(%s)), %s == 1)" % (occ, freq, freq),
            "implies(not is_none(old(%s)) and %s <= %s, %s * %s == %s)" % (occ, occ, total, freq, total, occ),
            "implies(not is_none(old(%s)) and %s > %s, %s == 1)" % (occ, occ, total, freq),
            "implies(is_none(old(%s)) and not is_none(old(%s)), %s == old(%s))" % (occ, freq, freq, freq),
        ]
    return dict(
        segment=dict(start="if %s is None:" % occ, start_ordinal=1, end=None),
        locals={occ: "int", freq: "real", total: "int"},
        variants=[{occ: "none", freq: "none"}, {occ: "int", freq: "none"}, {occ: "none", freq: "real"}],
        requires=["%s >= 1" % total, "implies(not is_none(%s), %s >= 0)" % (occ, occ), "implies(not is_none(%s), %s >= 0 and %s <= 1)" % (freq, freq, freq)],
        ensures=post,
        ghost_exit="",
    )


CONTRACTS[F + "prune_token_dictionary#min_occurrences"] = conv(1, "min_occurrences", "min_frequency", "total_tokens", True)
CONTRACTS[F + "prune_token_dictionary#max_occurrences"] = conv(1, "max_occurrences", "max_frequency", "total_tokens", False)
CONTRACTS[F + "prune_token_dictionary#min_document_occurrences"] = conv(1, "min_document_occurrences", "min_document_frequency", "total_documents", True)
CONTRACTS[F + "prune_token_dictionary#max_document_occurrences"] = conv(1, "max_document_occurrences", "max_document_frequency", "total_documents", False)

# top-k: every kept frequency is strictly above the (k+1)-th largest, every dropped one is not: none kept is less frequent than a dropped one
CONTRACTS[F + "prune_token_dictionary#topk"] = dict(
    segment=dict(start="freq = np.sort(new_token_frequency)[-max_unique_tokens - 1]", start_ordinal=1, end="new_token_frequency = new_token_frequency[new_inds]"),
    locals=dict(new_token_frequency="real[]", max_unique_tokens="int"),
    requires=["max_unique_tokens >= 0", "len(new_token_frequency) > max_unique_tokens"],
    ensures=[
        "len(new_inds) == len(new_token_frequency)",
        "forall(0, len(new_inds), lambda a: forall(0, len(new_inds), lambda b: implies(new_inds[a] and not new_inds[b], new_token_frequency[a] > new_token_frequency[b])))",
        # the threshold is one of the frequencies, so at least one token is dropped
        "exists(0, len(new_inds), lambda a: not new_inds[a])",
    ],
)

# the four strict comparisons: a token is pruned iff its frequency is strictly below / above the bound (so a token AT the bound is kept)
CONTRACTS[F + "prune_token_dictionary#comparisons"] = dict(
    segment=dict(start="infrequent_tokens = np.where(token_frequencies < min_frequency)[0]", start_ordinal=1,
                 end="frequent_doc_tokens = np.where(token_doc_frequencies > max_document_frequency)[0]", end_inclusive=True),
    locals=dict(token_frequencies="real[]", token_doc_frequencies="real[]", min_frequency="real", max_frequency="real", min_document_frequency="real", max_document_frequency="real"),
    requires=[],
    ensures=[
        "forall(0, len(token_frequencies), lambda t: iff(member(t, infrequent_tokens), token_frequencies[t] < min_frequency))",
        "forall(0, len(token_frequencies), lambda t: iff(member(t, frequent_tokens), token_frequencies[t] > max_frequency))",
        "forall(0, len(token_doc_frequencies), lambda t: iff(member(t, infrequent_doc_tokens), token_doc_frequencies[t] < min_document_frequency))",
        "forall(0, len(token_doc_frequencies), lambda t: iff(member(t, frequent_doc_tokens), token_doc_frequencies[t] > max_document_frequency))",
        "forall(0, len(infrequent_tokens), lambda k: 0 <= infrequent_tokens[k] and infrequent_tokens[k] < len(token_frequencies))",
    ],
)
