"""Contracts on segments of vectorizers/preprocessing.py::prune_token_dictionary (C05).

The function mixes sets, regular expressions and np.where, which are outside pyvc's subset; the arithmetic that decides
*which bound a count is compared with* is verified on mechanically extracted segments (statement ranges of the real
function), one per constraint, for every combination of `None` / given."""
F = "vectorizers/preprocessing.py::"
CONTRACTS = {}


def conv(seg_ordinal, occ, freq, total, lower):
    """The k-th `if <occ> is None:` block converting an occurrence bound into a frequency bound."""
    post = []
    if lower:
        post = [
            # no bound given at all: nothing can be below it
            "implies(is_none(old(%s)) and is_none(old(%s)), %s == 0)" % (occ, freq, freq),
            # an occurrence bound becomes exactly occurrences / total: a token occurring exactly the bound has count/total == bound, not < bound
            "implies(not is_none(old(%s)), %s * %s == %s)" % (occ, freq, total, occ),
            "implies(is_none(old(%s)) and not is_none(old(%s)), %s == old(%s))" % (occ, freq, freq, freq),
        ]
    else:
        post = [
            "implies(is_none(old(%s)) and is_none(old(%s)), %s == 1)" % (occ, freq, freq),
            "implies(not is_none(old(%s)) and %s <= %s, %s * %s == %s)" % (occ, occ, total, freq, total, occ),
            "implies(not is_none(old(%s)) and %s > %s, %s == 1)" % (occ, occ, total, freq),
            "implies(is_none(old(%s)) and not is_none(old(%s)), %s == old(%s))" % (occ, freq, freq, freq),
        ]
    return dict(
        segment=dict(start="if %s is None:" % occ, start_ordinal=1, end=None),
        locals={occ: "int", freq: "real", total: "int"},
        variants=[{occ: "none", freq: "none"}, {occ: "int", freq: "none"}, {occ: "none", freq: "real"}],
        requires=["%s >= 1" % total, "implies(not is_none(%s), %s >= 0)" % (occ, occ), "implies(not is_none(%s), %s >= 0 and %s <= 1)" % (freq, freq, freq)],
        ensures=post,
        ghost_exit="",
    )


CONTRACTS[F + "prune_token_dictionary#min_occurrences"] = conv(1, "min_occurrences", "min_frequency", "total_tokens", True)
CONTRACTS[F + "prune_token_dictionary#max_occurrences"] = conv(1, "max_occurrences", "max_frequency", "total_tokens", False)
CONTRACTS[F + "prune_token_dictionary#min_document_occurrences"] = conv(1, "min_document_occurrences", "min_document_frequency", "total_documents", True)
CONTRACTS[F + "prune_token_dictionary#max_document_occurrences"] = conv(1, "max_document_occurrences", "max_document_frequency", "total_documents", False)

# top-k: every kept frequency is strictly above the (k+1)-th largest, every dropped one is not: none kept is less frequent than a dropped one
CONTRACTS[F + "prune_token_dictionary#topk"] = dict(
    segment=dict(start="freq = np.sort(new_token_frequency)[-max_unique_tokens - 1]", start_ordinal=1, end="new_token_frequency = new_token_frequency[new_inds]"),
    locals=dict(new_token_frequency="real[]", max_unique_tokens="int"),
    requires=["max_unique_tokens >= 0", "len(new_token_frequency) > max_unique_tokens"],
    ensures=[
        "len(new_inds) == len(new_token_frequency)",
        "forall(0, len(new_inds), lambda a: forall(0, len(new_inds), lambda b: implies(new_inds[a] and not new_inds[b], new_token_frequency[a] > new_token_frequency[b])))",
        # the threshold is one of the frequencies, so at least one token is dropped
        "exists(0, len(new_inds), lambda a: not new_inds[a])",
    ],
)

# the four strict comparisons: a token is pruned iff its frequency is strictly below / above the bound (so a token AT the bound is kept)
CONTRACTS[F + "prune_token_dictionary#comparisons"] = dict(
    segment=dict(start="infrequent_tokens = np.where(token_frequencies < min_frequency)[0]", start_ordinal=1,
                 end="frequent_doc_tokens = np.where(token_doc_frequencies > max_document_frequency)[0]", end_inclusive=True),
    locals=dict(token_frequencies="real[]", token_doc_frequencies="real[]", min_frequency="real", max_frequency="real", min_document_frequency="real", max_document_frequency="real"),
    requires=[],
    ensures=[
        "forall(0, len(token_frequencies), lambda t: iff(member(t, infrequent_tokens), token_frequencies[t] < min_frequency))",
        "forall(0, len(token_frequencies), lambda t: iff(member(t, frequent_tokens), token_frequencies[t] > max_frequency))",
        "forall(0, len(token_doc_frequencies), lambda t: iff(member(t, infrequent_doc_tokens), token_doc_frequencies[t] < min_document_frequency))",
        "forall(0, len(token_doc_frequencies), lambda t: iff(member(t, frequent_doc_tokens), token_doc_frequencies[t] > max_document_frequency))",
        "forall(0, len(infrequent_tokens), lambda k: 0 <= infrequent_tokens[k] and infrequent_tokens[k] < len(token_frequencies))",
    ],
)

# ---------------------------------------------------------------- re-indexing of the sequences (C14, C13, C01)
# Tokens are abstract ids (ints); the dictionary maps token -> index.  Segment: from `if masking is None:` up to (not including)
# the construction of the inverse dictionary, i.e. the code that deletes or replaces removed tokens.
_D = "token_dictionary"
CONTRACTS[F + "preprocess_token_sequences#reindex"] = dict(
    segment=dict(start="if masking is None:", start_ordinal=1, end=None),
    locals=dict(token_sequences="list[int[]]", token_dictionary="dict[int,int]", masking="int"),
    variants=[dict(masking="int"), dict(masking="none")],
    local_types=dict(result_sequences="list[int[]]"),
    requires=[],
    ensures=[
        "len(result_sequences) == len(token_sequences)",
        # with a mask: positions are preserved, a removed token becomes the index m = number of real tokens, the mask is the one extra last entry
        "implies(not is_none(masking), forall(0, len(token_sequences), lambda s: len(result_sequences[s]) == len(token_sequences[s])))",
        "implies(not is_none(masking), token_dictionary[masking] == card(token_dictionary) - 1 and masking in token_dictionary)",
        "implies(not is_none(masking), forall(0, len(token_sequences), lambda s: forall(0, len(token_sequences[s]), lambda j: "
        "result_sequences[s][j] == (token_dictionary[token_sequences[s][j]] if (token_sequences[s][j] in token_dictionary and token_sequences[s][j] != masking) else card(token_dictionary) - 1))))",
        # the dictionary object that was passed in (the user's, or the fitted one) is not edited
        "unchanged(token_dictionary)",
        # without a mask: removed tokens are deleted, the sequence can only get shorter
        "implies(is_none(masking), forall(0, len(token_sequences), lambda s: len(result_sequences[s]) <= len(token_sequences[s])))",
    ],
    loops={
        "for#1": dict(invariant=["len(result_sequences) == _k_for1",
                                 "forall(0, _k_for1, lambda s: len(result_sequences[s]) <= len(token_sequences[s]))"]),
        "for#2": dict(invariant=["len(result_sequences) == _k_for2", "not (masking in token_dictionary)",
                                 "forall(0, _k_for2, lambda s: len(result_sequences[s]) == len(token_sequences[s]))",
                                 "forall(0, _k_for2, lambda s: forall(0, len(token_sequences[s]), lambda j: "
                                 "result_sequences[s][j] == (token_dictionary[token_sequences[s][j]] if token_sequences[s][j] in token_dictionary else card(token_dictionary))))"]),
    },
)
