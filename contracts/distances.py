"""Contracts for vectorizers/distances.py (C18, C10)."""
F = "vectorizers/distances.py::"
CONTRACTS = {}

SORTED_PRE = ["len(ind1) == len(data1)", "len(ind2) == len(data2)",
              "strictly_increasing(ind1)", "strictly_increasing(ind2)"]

# arr_intersect / arr_union / arr_unique are numpy one-liners (sort / concatenate / boolean mask).
# Their contracts are *assumed* here (trusted=True) and checked at run time by the bounded layer.
CONTRACTS[F + "arr_intersect"] = dict(
    params=dict(ar1="int[]", ar2="int[]"),
    requires=["strictly_increasing(ar1)", "strictly_increasing(ar2)"],
    returns="int[]",
    ghost_out=dict(pos=(["int"], "int")),
    ensures=[
        "strictly_increasing(result)",
        # every element common to both inputs has a slot pos(.) in the result
        "forall(0, len(ar1), lambda a: forall(0, len(ar2), lambda b: implies(ar1[a] == ar2[b], 0 <= pos(a) and pos(a) < len(result) and result[pos(a)] == ar1[a])))",
        "forall(0, len(result), lambda k: member(result[k], ar1) and member(result[k], ar2))",
    ],
    trusted=True,
)

CONTRACTS[F + "arr_union"] = dict(
    params=dict(ar1="int[]", ar2="int[]"),
    requires=["strictly_increasing(ar1)", "strictly_increasing(ar2)"],
    returns="int[]",
    returns_alias=[("len(ar1) == 0", "ar2"), ("len(ar2) == 0", "ar1")],
    ghost_out=dict(pos1=(["int"], "int"), pos2=(["int"], "int")),
    ensures=[
        "strictly_increasing(result)",
        "forall(0, len(ar1), lambda a: 0 <= pos1(a) and pos1(a) < len(result) and result[pos1(a)] == ar1[a])",
        "forall(0, len(ar2), lambda b: 0 <= pos2(b) and pos2(b) < len(result) and result[pos2(b)] == ar2[b])",
        "forall(0, len(result), lambda k: member(result[k], ar1) or member(result[k], ar2))",
    ],
    trusted=True,
)

CONTRACTS[F + "sparse_mul"] = dict(
    params=dict(ind1="int[]", data1="real[]", ind2="int[]", data2="real[]"),
    requires=SORTED_PRE,
    returns="(int[],real[])",
    ensures=[
        "len(result[0]) == len(result[1])",
        "strictly_increasing(result[0])",
        "forall(0, len(result[0]), lambda k: member(result[0][k], ind1) and member(result[0][k], ind2))",
        "forall(0, len(result[1]), lambda k: result[1][k] != 0)",   # no stored zeros
        "unchanged(ind1) and unchanged(ind2) and unchanged(data1) and unchanged(data2)",
    ],
    loops={
        "while#1": dict(
            invariant=[
                "0 <= i1 and i1 <= len(ind1) and 0 <= i2 and i2 <= len(ind2) and 0 <= nnz",
                "len(result_ind) == len(result_data)",
                # remaining common elements all sit at or after slot nnz of arr_intersect's result
                "forall(i1, len(ind1), lambda a: forall(i2, len(ind2), lambda b: implies(ind1[a] == ind2[b], nnz <= arr_intersect_pos(a))))",
                # what has been written is a strictly increasing list of common elements, all below the frontier
                "strictly_increasing(result_ind, 0, nnz)",
                "forall(0, nnz, lambda k: member(result_ind[k], ind1) and member(result_ind[k], ind2))",
                "forall(0, nnz, lambda k: implies(i1 < len(ind1), result_ind[k] < ind1[i1]) and implies(i2 < len(ind2), result_ind[k] < ind2[i2]))",
                "nnz <= len(result_ind)",
                "forall(0, nnz, lambda k: result_data[k] != 0)",
            ],
            decreases="len(ind1) - i1 + len(ind2) - i2",
        ),
    },
)

# ---------------------------------------------------------------- sparse_sum / dense_union
# The three loops share one invariant.  arr_union may return one of its arguments (empty other
# operand): the engine forks on that alias case, in which result_ind *is* ind1 or ind2 and the
# loop compacts it in place; the `same(...)` conjuncts carry what is needed there and are trivially
# true otherwise.
_SUM_INV = [
    "0 <= i1 and i1 <= len(ind1) and 0 <= i2 and i2 <= len(ind2) and 0 <= nnz and nnz <= len(result_ind)",
    "len(result_ind) == len(result_data)",
    "implies(i1 < len(ind1), nnz <= arr_union_pos1(i1))",
    "implies(i2 < len(ind2), nnz <= arr_union_pos2(i2))",
    "implies(same(result_ind, ind1), nnz <= i1) and implies(same(result_ind, ind2), nnz <= i2)",
    "forall(i1, len(ind1), lambda k: ind1[k] == old(ind1)[k])",
    "forall(i2, len(ind2), lambda k: ind2[k] == old(ind2)[k])",
    "len(ind1) == len(old(ind1)) and len(ind2) == len(old(ind2))",
    "strictly_increasing(result_ind, 0, nnz)",
    "forall(0, nnz, lambda k: member(result_ind[k], old(ind1)) or member(result_ind[k], old(ind2)))",
    "forall(0, nnz, lambda k: implies(i1 < len(ind1), result_ind[k] < old(ind1)[i1]) and implies(i2 < len(ind2), result_ind[k] < old(ind2)[i2]))",
]

CONTRACTS[F + "sparse_sum"] = dict(
    params=dict(ind1="int[]", data1="real[]", ind2="int[]", data2="real[]"),
    requires=SORTED_PRE,
    # FRAME (found by the frame obligation): when one operand is empty arr_union returns the OTHER operand's index array itself and
    # the compaction then runs in place - sparse_sum([], [], [1,2,3], [0,5,6]) leaves ind2 == [2,3,3].  No listed property forbids
    # it (C18 compares values only); the contract has to admit it: the index arrays are only guaranteed intact when both operands are
    # non-empty.
    modifies=["ind1", "ind2"],
    returns="(int[],real[])",
    ensures=[
        "implies(len(old(ind1)) > 0 and len(old(ind2)) > 0, unchanged(ind1) and unchanged(ind2))",
        "len(result[0]) == len(result[1])",
        "strictly_increasing(result[0])",
        "forall(0, len(result[0]), lambda k: member(result[0][k], old(ind1)) or member(result[0][k], old(ind2)))",
        "forall(0, len(result[1]), lambda k: result[1][k] != 0)",
        "unchanged(data1) and unchanged(data2)",
    ],
    loops={
        "while#1": dict(invariant=_SUM_INV + ["forall(0, nnz, lambda k: result_data[k] != 0)"], decreases="len(ind1) - i1 + len(ind2) - i2"),
        "while#2": dict(invariant=_SUM_INV + ["forall(0, nnz, lambda k: result_data[k] != 0)", "i1 >= len(ind1) or i2 >= len(ind2)"], decreases="len(ind1) - i1"),
        "while#3": dict(invariant=_SUM_INV + ["forall(0, nnz, lambda k: result_data[k] != 0)", "i1 >= len(ind1)"], decreases="len(ind2) - i2"),
    },
)

_DU_INV = [
    "implies(forall(0, len(data1), lambda k: data1[k] >= 0) and forall(0, len(data2), lambda k: data2[k] >= 0), "
    "forall(0, len(result_data1), lambda k: result_data1[k] >= 0 and result_data2[k] >= 0))",
    "0 <= i1 and i1 <= len(ind1) and 0 <= i2 and i2 <= len(ind2) and 0 <= nnz and nnz <= len(result_ind)",
    "len(result_ind) == len(result_data1) and len(result_ind) == len(result_data2)",
    "implies(i1 < len(ind1), nnz <= arr_union_pos1(i1))",
    "implies(i2 < len(ind2), nnz <= arr_union_pos2(i2))",
]
_NN = "forall(0, len(data1), lambda k: data1[k] >= 0) and forall(0, len(data2), lambda k: data2[k] >= 0)"
CONTRACTS[F + "dense_union"] = dict(
    params=dict(ind1="int[]", data1="real[]", ind2="int[]", data2="real[]"),
    requires=SORTED_PRE,
    returns="(real[],real[])",
    ensures=[
        "len(result[0]) == len(result[1])",
        # non-negative inputs give non-negative dense vectors (what the dense divergences require)
        "implies(%s, forall(0, len(result[0]), lambda k: result[0][k] >= 0 and result[1][k] >= 0))" % _NN,
        "unchanged(ind1) and unchanged(ind2) and unchanged(data1) and unchanged(data2)",
    ],
    loops={
        "while#1": dict(invariant=_DU_INV, decreases="len(ind1) - i1 + len(ind2) - i2"),
        "while#2": dict(invariant=_DU_INV + ["i1 >= len(ind1) or i2 >= len(ind2)"], decreases="len(ind1) - i1"),
        "while#3": dict(invariant=_DU_INV + ["i1 >= len(ind1)"], decreases="len(ind2) - i2"),
    },
)

# ---------------------------------------------------------------- dense distances: memory safety + float safety (fsafe)
_DENSE_PRE = ["len(x) == len(y)", "forall(0, len(x), lambda k: x[k] >= 0)", "forall(0, len(y), lambda k: y[k] >= 0)"]
CONTRACTS[F + "hellinger"] = dict(
    params=dict(x="real[]", y="real[]"), requires=_DENSE_PRE, fsafe=True, returns="real",
    # every sqrt argument is >= 0 and every divisor is != 0 (fsafe obligations); the result is a non-negative real
    ensures=["result >= 0", "unchanged(x) and unchanged(y)"],
    loops={"for#1": dict(invariant=["result >= 0 and l1_norm_x >= 0 and l1_norm_y >= 0"])},
)
CONTRACTS[F + "total_variation"] = dict(
    params=dict(x="real[]", y="real[]"), requires=_DENSE_PRE, returns="real",
    ensures=["result >= 0", "unchanged(x) and unchanged(y)"],
    loops={"for#1": dict(invariant=["True"]), "for#2": dict(invariant=["result >= 0", "len(x_pdf) == len(x) and len(y_pdf) == len(x)"])},
)
CONTRACTS[F + "kantorovich1d"] = dict(
    params=dict(x="real[]", y="real[]", p="int"), requires=_DENSE_PRE + ["p >= 1"], returns="real",
    ensures=["unchanged(x) and unchanged(y)"],
    loops={"for#1": dict(invariant=["True"]), "for#2": dict(invariant=["len(x_cdf) == len(x) and len(y_cdf) == len(x)"]),
           "for#3": dict(invariant=["len(x_cdf) == len(x) and len(y_cdf) == len(x)"]), "for#4": dict(invariant=["len(x_cdf) == len(x) and len(y_cdf) == len(x)"]),
           "for#5": dict(invariant=["len(x_cdf) == len(x) and len(y_cdf) == len(x)"])},
)
CONTRACTS[F + "jensen_shannon_divergence"] = dict(
    params=dict(x="real[]", y="real[]"), requires=_DENSE_PRE, returns="real", ensures=["unchanged(x) and unchanged(y)"],
    loops={"for#1": dict(invariant=["True"]), "for#2": dict(invariant=["len(pdf_x) == len(x) and len(pdf_y) == len(x) and len(m) == len(x)"])},
)
CONTRACTS[F + "symmetric_kl_divergence"] = dict(
    params=dict(x="real[]", y="real[]"), requires=_DENSE_PRE, returns="real", ensures=["unchanged(x) and unchanged(y)"],
    loops={"for#1": dict(invariant=["True"]), "for#2": dict(invariant=["len(pdf_x) == len(x) and len(pdf_y) == len(x)"])},
)
CONTRACTS[F + "sparse_hellinger"] = dict(
    params=dict(ind1="int[]", data1="real[]", ind2="int[]", data2="real[]"),
    requires=SORTED_PRE + ["forall(0, len(data1), lambda k: data1[k] >= 0)", "forall(0, len(data2), lambda k: data2[k] >= 0)"],
    returns="real", ensures=["unchanged(data1) and unchanged(data2)"],
    loops={"for#1": dict(invariant=["True"])},
)


# ---------------------------------------------------------------- input generators for the run-time cross-check / replay search
def _gen_sparse_pair(rng):
    import numpy as np
    def one():
        n = rng.choice([0, 1, 2, 3, 4])
        idx = sorted(rng.sample(range(8), n))
        return np.array(idx, dtype=np.int32), np.array([rng.choice([0.0, 1.0, 2.0, 0.5, 3.0]) for _ in idx], dtype=np.float32)
    i1, d1 = one()
    i2, d2 = one()
    return dict(ind1=i1, data1=d1, ind2=i2, data2=d2)


def _gen_dense_pair(rng):
    import numpy as np
    n = rng.choice([1, 2, 3, 5])
    x = np.array([rng.choice([0.0, 1.0, 2.0, 0.5]) for _ in range(n)], dtype=np.float64)
    y = np.array([rng.choice([0.0, 1.0, 2.0, 0.5]) for _ in range(n)], dtype=np.float64)
    x[rng.randrange(n)] += 1.0
    y[rng.randrange(n)] += 1.0
    return dict(x=x, y=y)


for _f in ("sparse_sum", "sparse_mul", "dense_union", "sparse_hellinger"):
    CONTRACTS[F + _f]["gen_all"] = _gen_sparse_pair
for _f in ("hellinger", "total_variation", "jensen_shannon_divergence", "symmetric_kl_divergence"):
    CONTRACTS[F + _f]["gen_all"] = _gen_dense_pair
CONTRACTS[F + "kantorovich1d"]["gen_all"] = lambda rng: dict(_gen_dense_pair(rng), p=rng.choice([1, 2, 3]))
CONTRACTS[F + "arr_union"]["gen_all"] = lambda rng: (lambda d: dict(ar1=d["ind1"], ar2=d["ind2"]))(_gen_sparse_pair(rng))
CONTRACTS[F + "arr_intersect"]["gen_all"] = lambda rng: (lambda d: dict(ar1=d["ind1"], ar2=d["ind2"]))(_gen_sparse_pair(rng))


def _index_of(arr, x):
    for k, y in enumerate(arr):
        if y == x:
            return k
    return -1


# run-time witnesses of the TRUSTED contracts' existential position functions (so that the engine cross-check evaluates those
# clauses on the real arr_union / arr_intersect instead of skipping them)
CONTRACTS[F + "arr_union"]["runtime_ghost_out"] = dict(
    pos1=lambda args, result: (lambda a: _index_of(result, args["ar1"][a])),
    pos2=lambda args, result: (lambda b: _index_of(result, args["ar2"][b])))
CONTRACTS[F + "arr_intersect"]["runtime_ghost_out"] = dict(pos=lambda args, result: (lambda a: _index_of(result, args["ar1"][a])))


# ---------------------------------------------------------------- the remaining sparse wrappers (C10 memory safety, C18 "sparse = dense" plumbing)
_SP = dict(ind1="int[]", data1="real[]", ind2="int[]", data2="real[]")
CONTRACTS[F + "sparse_diff"] = dict(
    params=_SP, requires=SORTED_PRE, returns="(int[],real[])",
    modifies=["ind1", "ind2"],      # inherits sparse_sum's alias case (one operand empty)
    ensures=["len(result[0]) == len(result[1])", "strictly_increasing(result[0])", "unchanged(data1) and unchanged(data2)",
             "implies(len(old(ind1)) > 0 and len(old(ind2)) > 0, unchanged(ind1) and unchanged(ind2))"],
)
CONTRACTS[F + "sparse_total_variation"] = dict(
    # positive total mass (C18's domain): with a zero sum the normalisation is 0/0 = NaN in IEEE arithmetic, which the real-number
    # model cannot see - the engine cross-check found exactly that input ([3, 0] vs [0]) when this precondition was missing
    params=_SP, requires=SORTED_PRE + ["psum(data1, len(data1)) > 0", "psum(data2, len(data2)) > 0"], returns="real",
    modifies=["ind1", "ind2"],
    ensures=["result >= 0", "unchanged(data1) and unchanged(data2)"],
    loops={"for#1": dict(invariant=["result >= 0"])},
)
for _f, _dense in (("sparse_jensen_shannon_divergence", "jensen_shannon_divergence"), ("sparse_symmetric_kl_divergence", "symmetric_kl_divergence")):
    # the dense divergence is applied to the two vectors spread over the union of the index sets (equal lengths by dense_union's contract)
    CONTRACTS[F + _f] = dict(params=_SP, requires=SORTED_PRE + [_NN], returns="real",
                             ensures=["unchanged(ind1) and unchanged(ind2) and unchanged(data1) and unchanged(data2)"])
for _f in ("sparse_diff", "sparse_total_variation", "sparse_jensen_shannon_divergence", "sparse_symmetric_kl_divergence"):
    CONTRACTS[F + _f]["gen_all"] = _gen_sparse_pair
