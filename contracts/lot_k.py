"""Contracts for the kernels of vectorizers/linear_optimal_transport.py (C07, C10)."""
F = "vectorizers/linear_optimal_transport.py::"
CONTRACTS = {}
_GRAPH = "struct{n:int,m:int,n_arcs:int,use_arc_mixing:bool}"

# pynndescent.optimal_transport.arc_id is a function of an installed dependency.  Its contract is no longer just stated: the
# source that /venv imports (site-packages/pynndescent/optimal_transport.py, read on every run) is verified against it below
# ("@site/..." entry), and callers in /repo use the same clause list through "external::arc_id" (verified_by names the entry).
# transport_plan allocates its graph with use_arc_mixing=False, which is the case the contract covers.
_GRAPH_FULL = ("struct{n:int,m:int,n_arcs:int,use_arc_mixing:bool,num_total_big_subsequence_numbers:int,subsequence_length:int,"
               "num_big_subsequences:int,mixing_coeff:int,n_nodes:int}")
_ARC_REQ = ["0 <= arc and arc < graph.n_arcs", "not graph.use_arc_mixing"]
_ARC_ENS = ["result == graph.n_arcs - arc - 1", "0 <= result and result < graph.n_arcs"]
CONTRACTS["@site/pynndescent/optimal_transport.py::arc_id"] = dict(
    params=dict(arc="int", graph=_GRAPH_FULL),
    requires=_ARC_REQ,
    returns="int",
    ensures=_ARC_ENS,
)
CONTRACTS["external::arc_id"] = dict(
    param_names=["arc", "graph"], params=dict(arc="int", graph=_GRAPH),
    source="pynndescent/optimal_transport.py::arc_id",
    verified_by="@site/pynndescent/optimal_transport.py::arc_id",
    requires=_ARC_REQ,
    returns="int",
    ensures=_ARC_ENS,
)

_CELL = "result[{i}, {j}] == flow[graph.n_arcs - ({i} * graph.m + {j}) - 1]"
CONTRACTS[F + "get_transport_plan"] = dict(
    params=dict(flow="real[]", graph=_GRAPH),
    requires=["graph.n >= 0 and graph.m >= 0", "graph.n_arcs == graph.n * graph.m", "len(flow) >= graph.n_arcs", "not graph.use_arc_mixing"],
    returns="real[,]",
    ensures=[
        # cell (i, j) of the plan reads the flow of arc i*m + j: the same (injective, in-range) index the cost was written to
        "forall(0, graph.n, lambda a: forall(0, graph.m, lambda b: " + _CELL.format(i="a", j="b") + "))",
        "unchanged(flow)",
    ],
    loops={
        "for#1": dict(invariant=["forall(0, i, lambda a: forall(0, graph.m, lambda b: " + _CELL.format(i="a", j="b") + "))"]),
        "for#2": dict(invariant=["forall(0, i, lambda a: forall(0, graph.m, lambda b: " + _CELL.format(i="a", j="b") + "))",
                                 "forall(0, j, lambda b: " + _CELL.format(i="i", j="b") + ")"]),
    },
)

# initialize_cost (installed pynndescent source): the cost of cell (i, j) is written to slot n_arcs - (i*m + j) - 1 of the arc
# cost vector - the very slot get_transport_plan reads cell (i, j) of the plan from.  Together the two contracts say that plan
# cell (i, j) is the flow of the arc that carries cost[i, j] (C07: the plan returned is the plan of the problem that was posed).
_CW = "cost[graph.n_arcs - ({i} * graph.m + {j}) - 1] == cost_matrix[{i}, {j}]"
CONTRACTS["@site/pynndescent/optimal_transport.py::initialize_cost"] = dict(
    params=dict(cost_matrix="real[,]", graph=_GRAPH_FULL, cost="real[]"),
    requires=["graph.n >= 0 and graph.m >= 0", "graph.n_arcs == graph.n * graph.m", "len(cost) >= graph.n_arcs", "not graph.use_arc_mixing",
              "cost_matrix.shape[0] == graph.n and cost_matrix.shape[1] == graph.m"],
    modifies=["cost"],
    returns="none",
    ensures=["forall(0, graph.n, lambda a: forall(0, graph.m, lambda b: " + _CW.format(i="a", j="b") + "))"],
    loops={
        "for#1": dict(invariant=["forall(0, i, lambda a: forall(0, graph.m, lambda b: " + _CW.format(i="a", j="b") + "))"]),
        "for#2": dict(invariant=["forall(0, i, lambda a: forall(0, graph.m, lambda b: " + _CW.format(i="a", j="b") + "))",
                                 "forall(0, j, lambda b: " + _CW.format(i="i", j="b") + ")"]),
    },
)

# initialize_supply (installed pynndescent source): node k < n gets the k-th left supply, node n + k the k-th right supply, both
# at the mirrored slot n_nodes - node - 1; every read and write in range.
CONTRACTS["@site/pynndescent/optimal_transport.py::initialize_supply"] = dict(
    params=dict(left_node_supply="real[]", right_node_supply="real[]", graph=_GRAPH_FULL, supply="real[]"),
    requires=["graph.n >= 0 and graph.m >= 0", "graph.n_nodes == graph.n + graph.m", "len(supply) >= graph.n_nodes",
              "len(left_node_supply) == graph.n and len(right_node_supply) == graph.m"],
    modifies=["supply"],
    returns="none",
    ensures=["forall(0, graph.n, lambda k: supply[graph.n_nodes - k - 1] == left_node_supply[k])",
             "forall(0, graph.m, lambda k: supply[graph.n_nodes - (graph.n + k) - 1] == right_node_supply[k])",
             "unchanged(left_node_supply) and unchanged(right_node_supply)"],
    loops={
        "for#1": dict(invariant=["forall(0, n, lambda k: implies(k < graph.n, supply[graph.n_nodes - k - 1] == left_node_supply[k]))",
                                 "forall(0, graph.m, lambda k: implies(graph.n + k < n, supply[graph.n_nodes - (graph.n + k) - 1] == right_node_supply[k]))"]),
    },
)

# row-wise L2 normalisation in place (C10 memory safety; C12: row i is computed from row i only - zero rows are left alone)
CONTRACTS["vectorizers/linear_optimal_transport.py::l2_normalize"] = dict(
    params=dict(vectors="real[,]"),
    requires=[],
    modifies=["vectors"],
    returns="none",
    ensures=["vectors.shape[0] == old(vectors.shape[0]) and vectors.shape[1] == old(vectors.shape[1])"],
    loops={"for#1": dict(invariant=["True"]), "for#2": dict(invariant=["norm >= 0"]), "for#3": dict(invariant=["True"])},
)

# tangent-space projection: one output row per input row, and - C13 - NEITHER argument is written (sphere_basepoints is the caller's
# reference_vectors array; the frame obligations generated for both parameters are what a "normalise in place" refactoring fails)
CONTRACTS[F + "project_to_sphere_tangent_space"] = dict(
    params=dict(euclidean_vectors="real[,]", sphere_basepoints="real[,]"),
    requires=["sphere_basepoints.shape[0] >= euclidean_vectors.shape[0]", "sphere_basepoints.shape[1] == euclidean_vectors.shape[1]"],
    returns="real[,]",
    ensures=["result.shape[0] == euclidean_vectors.shape[0] and result.shape[1] == euclidean_vectors.shape[1]"],
    loops={"for#1": dict(invariant=["result.shape[0] == euclidean_vectors.shape[0] and result.shape[1] == euclidean_vectors.shape[1]"])},
)


def _gen_graph(rng, mixing=False):
    from types import SimpleNamespace
    n, m = rng.choice([0, 1, 2, 3, 5]), rng.choice([0, 1, 2, 4])
    return SimpleNamespace(n=n, m=m, n_arcs=n * m, n_nodes=n + m, use_arc_mixing=mixing, num_total_big_subsequence_numbers=0, subsequence_length=1,
                           num_big_subsequences=0, mixing_coeff=1)


def _gen_arc(rng):
    g = _gen_graph(rng)
    return dict(arc=rng.randrange(-1, g.n_arcs + 2), graph=g)


def _gen_cost(rng):
    import numpy as np
    g = _gen_graph(rng)
    return dict(cost_matrix=np.array([[rng.random() for _ in range(g.m)] for _ in range(g.n)], dtype=np.float64).reshape(g.n, g.m), graph=g,
                cost=np.zeros(g.n_arcs + rng.choice([0, 3]), dtype=np.float64))


def _gen_supply(rng):
    import numpy as np
    g = _gen_graph(rng)
    return dict(left_node_supply=np.array([rng.random() for _ in range(g.n)], dtype=np.float64), right_node_supply=np.array([rng.random() for _ in range(g.m)], dtype=np.float64),
                graph=g, supply=np.zeros(g.n_nodes + rng.choice([0, 2]), dtype=np.float64))


_S = "@site/pynndescent/optimal_transport.py::"
CONTRACTS[_S + "arc_id"]["gen_all"] = _gen_arc
CONTRACTS[_S + "initialize_cost"]["gen_all"] = _gen_cost
CONTRACTS[_S + "initialize_supply"]["gen_all"] = _gen_supply
