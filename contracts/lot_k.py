"""Contracts for the kernels of vectorizers/linear_optimal_transport.py (C07, C10)."""
F = "vectorizers/linear_optimal_transport.py::"
CONTRACTS = {}
_GRAPH = "struct{n:int,m:int,n_arcs:int,use_arc_mixing:bool}"

# pynndescent.optimal_transport.arc_id (15 lines, read from site-packages): for use_arc_mixing == False it returns
# graph.n_arcs - arc - 1.  transport_plan allocates its graph with use_arc_mixing=False.  Stated, not verified here.
CONTRACTS["external::arc_id"] = dict(
    param_names=["arc", "graph"], params=dict(arc="int", graph=_GRAPH),
    source="pynndescent/optimal_transport.py::arc_id",
    requires=["0 <= arc and arc < graph.n_arcs", "not graph.use_arc_mixing"],
    returns="int",
    ensures=["result == graph.n_arcs - arc - 1"],
    trusted=True,
)

_CELL = "result[{i}, {j}] == flow[graph.n_arcs - ({i} * graph.m + {j}) - 1]"
CONTRACTS[F + "get_transport_plan"] = dict(
    params=dict(flow="real[]", graph=_GRAPH),
    requires=["graph.n >= 0 and graph.m >= 0", "graph.n_arcs == graph.n * graph.m", "len(flow) >= graph.n_arcs", "not graph.use_arc_mixing"],
    returns="real[,]",
    ensures=[
        # cell (i, j) of the plan reads the flow of arc i*m + j: the same (injective, in-range) index the cost was written to
        "forall(0, graph.n, lambda a: forall(0, graph.m, lambda b: " + _CELL.format(i="a", j="b") + "))",
        "unchanged(flow)",
    ],
    loops={
        "for#1": dict(invariant=["forall(0, i, lambda a: forall(0, graph.m, lambda b: " + _CELL.format(i="a", j="b") + "))"]),
        "for#2": dict(invariant=["forall(0, i, lambda a: forall(0, graph.m, lambda b: " + _CELL.format(i="a", j="b") + "))",
                                 "forall(0, j, lambda b: " + _CELL.format(i="i", j="b") + ")"]),
    },
)

# row-wise L2 normalisation in place (C10 memory safety; C12: row i is computed from row i only - zero rows are left alone)
CONTRACTS["vectorizers/linear_optimal_transport.py::l2_normalize"] = dict(
    params=dict(vectors="real[,]"),
    requires=[],
    modifies=["vectors"],
    returns="none",
    ensures=["vectors.shape[0] == old(vectors.shape[0]) and vectors.shape[1] == old(vectors.shape[1])"],
    loops={"for#1": dict(invariant=["True"]), "for#2": dict(invariant=["norm >= 0"]), "for#3": dict(invariant=["True"])},
)

# tangent-space projection: one output row per input row, and - C13 - NEITHER argument is written (sphere_basepoints is the caller's
# reference_vectors array; the frame obligations generated for both parameters are what a "normalise in place" refactoring fails)
CONTRACTS[F + "project_to_sphere_tangent_space"] = dict(
    params=dict(euclidean_vectors="real[,]", sphere_basepoints="real[,]"),
    requires=["sphere_basepoints.shape[0] >= euclidean_vectors.shape[0]", "sphere_basepoints.shape[1] == euclidean_vectors.shape[1]"],
    returns="real[,]",
    ensures=["result.shape[0] == euclidean_vectors.shape[0] and result.shape[1] == euclidean_vectors.shape[1]"],
    loops={"for#1": dict(invariant=["result.shape[0] == euclidean_vectors.shape[0] and result.shape[1] == euclidean_vectors.shape[1]"])},
)
