"""Contract for vectorizers/tree_token_cooccurrence.py::build_tree_skip_grams (C15), over an uninterpreted matrix ring:
the loop pairs weight k with the (k+1)-th power of the adjacency matrix and runs exactly window_size times."""
F = "vectorizers/tree_token_cooccurrence.py::"
CONTRACTS = {}
CONTRACTS[F + "build_tree_skip_grams#walks"] = dict(
    segment=dict(start="weights = kernel_function(-np.ones(window_size), *kernel_args)", start_ordinal=1, end="grouped_matrix, new_labels = sparse_collapse(count_matrix, token_sequence)"),
    locals=dict(adjacency_matrix="mat", kernel_function="func", kernel_args="()", window_size="int"),
    func_params={"kernel_function": dict(returns="real[]", ensures=["len(ret) == len(arg0)"])},
    requires=["window_size >= 1"],
    ensures=[
        # count = sum_{k=1..window_size} weights[k-1] * A^k  (entry (u, v) of A^k counts the directed walks of k steps from u to v)
        "count_matrix == wsum(adjacency_matrix, weights, window_size)",
        "walk == mpow(adjacency_matrix, window_size)",
    ],
    loops={"for#1": dict(invariant=["walk == mpow(adjacency_matrix, i)", "count_matrix == wsum(adjacency_matrix, weights, i)", "len(weights) == window_size"])},
)
