"""Contracts for the kernels of vectorizers/transformers (info_weight.py, row_desnoise.py) - C10, C12, C17."""
R = "vectorizers/transformers/row_desnoise.py::"
I = "vectorizers/transformers/info_weight.py::"
CONTRACTS = {}

_CSR = [
    "len(indptr) >= 1 and len(inds) == len(data)",
    "forall(0, len(indptr) - 1, lambda r: 0 <= indptr[r] and indptr[r] <= indptr[r + 1] and indptr[r + 1] <= len(data))",
    "forall(0, len(inds), lambda k: 0 <= inds[k] and inds[k] < len(background))",
]
_RL = "len(result) == len(data) and len(mix_weights) == len(indptr) - 1 and len(prior) == 2"
CONTRACTS[R + "numba_multinomial_em_sparse"] = dict(
    params=dict(indptr="int[]", inds="int[]", data="real[]", background="real[]", precision="real", low_thresh="real", bg_prior="real", prior_strength="real"),
    requires=_CSR,
    ensures=["len(result[0]) == len(data) and len(result[1]) == len(indptr) - 1",
             "unchanged(data) and unchanged(inds) and unchanged(indptr) and unchanged(background)"],
    loops={
        "for#1": dict(invariant=[_RL]),
        "for#2": dict(invariant=[_RL, "len(row_background) == len(row_data) and len(indices) == len(row_data)"]),
        "while#1": dict(invariant=[_RL, "len(current_dist) == len(row_data) and len(row_background) == len(row_data)"]),
        "for#3": dict(invariant=[_RL, "len(current_dist) == len(row_data)"]),
    },
)

_COL = [
    "len(count_indices) == len(count_data)",
    "strictly_increasing(count_indices)",
    "forall(0, len(count_indices), lambda k: 0 <= count_indices[k] and count_indices[k] < len(baseline_probabilities))",
]
CONTRACTS[I + "column_kl_divergence_exact_prior"] = dict(
    params=dict(count_indices="int[]", count_data="real[]", baseline_probabilities="real[]", prior_strength="real", target="int[]"),
    requires=_COL, returns="real", ensures=["unchanged(count_data) and unchanged(count_indices)"],
    loops={"for#1": dict(invariant=["True"])},
)
CONTRACTS[I + "column_kl_divergence_approx_prior"] = dict(
    params=dict(count_indices="int[]", count_data="real[]", baseline_probabilities="real[]", prior_strength="real", target="int[]"),
    requires=_COL, returns="real", ensures=[],
    loops={"for#1": dict(invariant=["True"])},
)
CONTRACTS[I + "supervised_column_kl"] = dict(
    params=dict(count_indices="int[]", count_data="real[]", baseline_probabilities="real[]", prior_strength="real", target="int[]"),
    requires=["len(count_indices) == len(count_data)",
              "forall(0, len(count_indices), lambda k: 0 <= count_indices[k] and count_indices[k] < len(target))",
              "forall(0, len(target), lambda k: 0 <= target[k] and target[k] < len(baseline_probabilities))"],
    returns="real", ensures=[],
    loops={"for#1": dict(invariant=["len(observed) == len(baseline_probabilities)"])},
)

# the per-column driver of the KL kernels: one weight per CSC column (the kernel it is given is a parameter: assumed pure, real-valued)
CONTRACTS[I + "column_weights"] = dict(
    params=dict(indptr="int[]", indices="int[]", data="real[]", baseline_probabilities="real[]", column_kl_divergence_func="func",
                prior_strength="real", target="int[]"),
    func_params={"column_kl_divergence_func": dict(returns="real", ensures=[])},
    requires=["len(indptr) >= 1", "len(indices) == len(data)"],
    returns="real[]",
    ensures=["len(result) == len(indptr) - 1", "unchanged(indptr) and unchanged(indices) and unchanged(data) and unchanged(baseline_probabilities)"],
    loops={"for#1": dict(invariant=["len(weights) == n_cols"])},
)
