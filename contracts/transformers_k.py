"""Contracts for the kernels of vectorizers/transformers (info_weight.py, row_desnoise.py) - C10, C12, C17."""
R = "vectorizers/transformers/row_desnoise.py::"
I = "vectorizers/transformers/info_weight.py::"
CONTRACTS = {}

_CSR = [
    "len(indptr) >= 1 and len(inds) == len(data)",
    "forall(0, len(indptr) - 1, lambda r: 0 <= indptr[r] and indptr[r] <= indptr[r + 1] and indptr[r + 1] <= len(data))",
    "forall(0, len(inds), lambda k: 0 <= inds[k] and inds[k] < len(background))",
]
_RL = "len(result) == len(data) and len(mix_weights) == len(indptr) - 1 and len(prior) == 2"
CONTRACTS[R + "numba_multinomial_em_sparse"] = dict(
    params=dict(indptr="int[]", inds="int[]", data="real[]", background="real[]", precision="real", low_thresh="real", bg_prior="real", prior_strength="real"),
    requires=_CSR,
    ensures=["len(result[0]) == len(data) and len(result[1]) == len(indptr) - 1",
             "unchanged(data) and unchanged(inds) and unchanged(indptr) and unchanged(background)"],
    loops={
        "for#1": dict(invariant=[_RL]),
        "for#2": dict(invariant=[_RL, "len(row_background) == len(row_data) and len(indices) == len(row_data)"]),
        "while#1": dict(invariant=[_RL, "len(current_dist) == len(row_data) and len(row_background) == len(row_data)"]),
        "for#3": dict(invariant=[_RL, "len(current_dist) == len(row_data)"]),
    },
)

_COL = [
    "len(count_indices) == len(count_data)",
    "strictly_increasing(count_indices)",
    "forall(0, len(count_indices), lambda k: 0 <= count_indices[k] and count_indices[k] < len(baseline_probabilities))",
]
# Functional contract, taken from the property statement (C17): the weight of a column is the Kullback-Leibler sum over ALL rows r of
#   P(r) * log(P(r) / baseline[r])   (0 where P(r) == 0),   P(r) = (CNT[r] + prior_strength * baseline[r]) / (column total + prior_strength)
# where CNT is the *dense* column (ghost): CNT[count_indices[k]] == count_data[k], 0 at rows that are not stored.  The definition does not
# mention the storage at all, so a stored explicit zero and an absent row must give the same term - the kernel's two branches (stored: the
# formula itself; absent: baseline[r] * (ps/norm) * log(ps/norm)) are proved equal to it, over the reals with log uninterpreted.
MACROS = {
    "KLNORM": ([], "(psum(count_data, len(count_data)) + prior_strength)"),
    "KLP": (["r"], "((CNT[r] + prior_strength * baseline_probabilities[r]) / KLNORM())"),
}
_KL_GHOST = [
    "prior_strength > 0",
    "forall(0, len(baseline_probabilities), lambda r: baseline_probabilities[r] >= 0)",
    "forall(0, len(count_data), lambda k: count_data[k] >= 0)",
    "len(CNT) == len(baseline_probabilities) and len(TERM) == len(baseline_probabilities)",
    "forall(0, len(count_indices), lambda k: CNT[count_indices[k]] == count_data[k])",
    "forall(0, len(baseline_probabilities), lambda r: implies(not member(r, count_indices), CNT[r] == 0))",
    "forall(0, len(baseline_probabilities), lambda r: TERM[r] == ite(KLP(r) > 0, KLP(r) * np.log(KLP(r) / baseline_probabilities[r]), 0))",
]
CONTRACTS[I + "column_kl_divergence_exact_prior"] = dict(
    params=dict(count_indices="int[]", count_data="real[]", baseline_probabilities="real[]", prior_strength="real", target="int[]"),
    ghost_params={"CNT": "real[]", "TERM": "real[]"},
    requires=_COL + _KL_GHOST, returns="real",
    ensures=["unchanged(count_data) and unchanged(count_indices)"],
    ensures_ghost=["result == psum(TERM, len(baseline_probabilities))"],
    ghost_after=[
        # the normaliser is positive: the column total is a sum of non-negative counts (prefix-sum lemma) and the prior strength is positive
        ("@assign:observed_norm", 1,
         "lemma(psum_bound(count_data, 0, len(count_data)), len(count_data) > 0)\n"
         "by(observed_norm == KLNORM() and observed_norm > 0, observed_norm == psum(count_data, len(count_data)) + prior_strength, prior_strength > 0, "
         "psum(count_data, 0) == 0, implies(len(count_data) <= 0, psum(count_data, len(count_data)) == 0), "
         "implies(len(count_data) > 0, count_data[0] >= 0 and psum(count_data, 0) + count_data[0] <= psum(count_data, len(count_data))))"),
        # stored row: the kernel's observed probability is the definition's P(i) (the stored value IS the dense column's entry)
        ("@augassign:result", 1,
         "by(observed_probability == KLP(i), CNT[i] == count_data[idx], observed_norm == KLNORM(), "
         "observed_probability == (count_data[idx] + prior_strength * baseline_probabilities[i]) / observed_norm)\n"
         "by(TERM[i] == observed_probability * np.log(observed_probability / baseline_probabilities[i]), observed_probability == KLP(i), observed_probability > 0, "
         "TERM[i] == ite(KLP(i) > 0, KLP(i) * np.log(KLP(i) / baseline_probabilities[i]), 0))"),
        # absent row: (0 + ps*b)/norm == b*(ps/norm), and its ratio to b is ps/norm whenever b > 0 (non-linear: proved in isolation)
        ("@augassign:result", 2,
         "by(KLP(i) == baseline_probabilities[i] * (prior_strength / KLNORM()) and implies(baseline_probabilities[i] > 0, KLP(i) / baseline_probabilities[i] == prior_strength / KLNORM()) "
         "and prior_strength / KLNORM() > 0, "
         "KLNORM() > 0, prior_strength > 0, baseline_probabilities[i] >= 0, CNT[i] == 0)\n"
         # ... hence the definition's term is the kernel's  baseline[i] * (ps/norm) * log(ps/norm)  (0 == 0 when baseline[i] == 0)
         "by(TERM[i] == baseline_probabilities[i] * observed_zero_constant, "
         "KLP(i) == baseline_probabilities[i] * (prior_strength / KLNORM()), implies(baseline_probabilities[i] > 0, KLP(i) / baseline_probabilities[i] == prior_strength / KLNORM()), "
         "prior_strength / KLNORM() > 0, baseline_probabilities[i] >= 0, "
         "TERM[i] == ite(KLP(i) > 0, KLP(i) * np.log(KLP(i) / baseline_probabilities[i]), 0), "
         "observed_zero_constant == (prior_strength / KLNORM()) * np.log(prior_strength / KLNORM()))"),
    ],
    loops={"for#1": dict(invariant=["result == psum(TERM, i)", "observed_norm == KLNORM() and observed_norm > 0",
                                    "observed_zero_constant == (prior_strength / observed_norm) * np.log(prior_strength / observed_norm)"])},
)
CONTRACTS[I + "column_kl_divergence_approx_prior"] = dict(
    params=dict(count_indices="int[]", count_data="real[]", baseline_probabilities="real[]", prior_strength="real", target="int[]"),
    requires=_COL, returns="real", ensures=[],
    loops={"for#1": dict(invariant=["True"])},
)
CONTRACTS[I + "supervised_column_kl"] = dict(
    params=dict(count_indices="int[]", count_data="real[]", baseline_probabilities="real[]", prior_strength="real", target="int[]"),
    requires=["len(count_indices) == len(count_data)",
              "forall(0, len(count_indices), lambda k: 0 <= count_indices[k] and count_indices[k] < len(target))",
              "forall(0, len(target), lambda k: 0 <= target[k] and target[k] < len(baseline_probabilities))"],
    returns="real", ensures=[],
    loops={"for#1": dict(invariant=["len(observed) == len(baseline_probabilities)"])},
)

# the per-column driver of the KL kernels: one weight per CSC column (the kernel it is given is a parameter: assumed pure, real-valued)
CONTRACTS[I + "column_weights"] = dict(
    params=dict(indptr="int[]", indices="int[]", data="real[]", baseline_probabilities="real[]", column_kl_divergence_func="func",
                prior_strength="real", target="int[]"),
    func_params={"column_kl_divergence_func": dict(returns="real", ensures=[])},
    requires=["len(indptr) >= 1", "len(indices) == len(data)"],
    returns="real[]",
    ensures=["len(result) == len(indptr) - 1", "unchanged(indptr) and unchanged(indices) and unchanged(data) and unchanged(baseline_probabilities)"],
    loops={"for#1": dict(invariant=["len(weights) == n_cols"])},
)
