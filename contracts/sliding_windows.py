"""Contracts for vectorizers/transformers/sliding_windows.py (C19, C10)."""
F = "vectorizers/transformers/sliding_windows.py::"
CONTRACTS = {}

CONTRACTS[F + "sliding_windows"] = dict(
    params=dict(sequence="real[]", width="int", stride="int", sample="int[]", kernel="func", kernel_output_size="int",
                kernel_output_dtype="opaque", pad_width="int", pad_value="real"),
    dtype_kinds={"sequence.dtype": "real", "kernel_output_dtype": "real"},
    func_params={"kernel": dict(returns="real[]", ensures=["len(ret) == kernel_output_size"])},
    requires=[
        "width >= 1", "stride >= 1", "pad_width >= 0", "kernel_output_size >= 0",
        "len(sequence) + 2 * pad_width >= width",
        # established by SlidingWindowTransformer.fit: every sampled position lies inside the window
        "forall(0, len(sample), lambda k: 0 <= sample[k] and sample[k] < width)",
    ],
    returns="real[,]",
    # every window [i*stride, i*stride + width) lies inside the (padded) sequence: nothing outside it is read
    ghost_after=[("n_cols = kernel_output_size", 1, "L1 = sequence.shape[0]")],
    loops={"for#1": dict(
        invariant=["True"],
        ghost_init="assert n_rows * stride >= last_window_start\nassert (n_rows - 1) * stride < last_window_start",
    )},
    ensures=[
        # ceil((L' - width + 1) / stride) rows
        "len(result) * stride >= len(old(sequence)) + 2 * pad_width - width + 1",
        "(len(result) - 1) * stride < len(old(sequence)) + 2 * pad_width - width + 1",
        "unchanged(sequence)",
    ],
)


def _gen_sw(rng):
    import numpy as np
    width = rng.choice([1, 2, 3, 4])
    pad = rng.choice([0, 0, 1, 2])
    L = rng.randint(max(0, width - 2 * pad), width + 6)
    sample = np.array(sorted(rng.sample(range(width), rng.randint(1, width))), dtype=np.int64)
    return dict(sequence=np.array([float(rng.randint(-3, 9)) for _ in range(L)]), width=width, stride=rng.choice([1, 2, 3]), sample=sample,
                kernel=(lambda w: np.asarray(w, dtype=np.float64).flatten()), kernel_output_size=len(sample), kernel_output_dtype=np.float64,
                pad_width=pad, pad_value=float(rng.choice([0, 7])))


CONTRACTS[F + "sliding_windows"]["gen_all"] = _gen_sw
