"""Contracts for vectorizers/_window_kernels.py (C03, C10, C14, C19)."""
F = "vectorizers/_window_kernels.py::"
CONTRACTS = {}

CONTRACTS[F + "window_at_index"] = dict(
    params=dict(token_sequence="int[]", window_size="int", ind="int", reverse="bool"),
    requires=["0 <= ind and ind < len(token_sequence)", "window_size >= 0"],
    returns="int[]",
    ensures=[
        # ordered by increasing distance from the target, clipped to this one sequence
        "implies(not reverse, len(result) == max(0, min(window_size, len(token_sequence) - 1 - ind)))",
        "implies(not reverse, forall(0, len(result), lambda j: result[j] == token_sequence[ind + 1 + j]))",
        "implies(reverse, len(result) == min(window_size, ind))",
        "implies(reverse, forall(0, len(result), lambda j: result[j] == token_sequence[ind - 1 - j]))",
        "unchanged(token_sequence)",
    ],
)

_KPARAMS = dict(window="int[]", mask_index="int", normalize="bool", offset="int")
_KVARIANTS = [dict(mask_index="int"), dict(mask_index="none")]
_KPRE = ["offset >= 0"]


def _kernel_post(base):
    return [
        "len(result) == len(window)",
        # zero before the offset and at masked contexts, the base weight elsewhere (un-normalised case)
        "implies(not normalize, forall(0, len(result), lambda j: result[j] == (0 if (j < offset or (not is_none(mask_index) and window[j] == mask_index)) else %s)))" % base,
        "forall(0, len(result), lambda j: implies(j < offset or (not is_none(mask_index) and window[j] == mask_index), result[j] == 0))",
        "unchanged(window)",
    ]


CONTRACTS[F + "flat_kernel"] = dict(params=_KPARAMS, variants=_KVARIANTS, requires=_KPRE, returns="real[]", ensures=_kernel_post("1"))
CONTRACTS[F + "harmonic_kernel"] = dict(params=_KPARAMS, variants=_KVARIANTS, requires=_KPRE, returns="real[]", ensures=_kernel_post("1 / (j + 1)"))
CONTRACTS[F + "geometric_kernel"] = dict(
    params=dict(_KPARAMS, power="real"), variants=_KVARIANTS, requires=_KPRE + ["power > 0"], returns="real[]",
    ensures=["len(result) == len(window)",
             "forall(0, len(result), lambda j: implies(j < offset or (not is_none(mask_index) and window[j] == mask_index), result[j] == 0))",
             "unchanged(window)"])

CONTRACTS[F + "update_kernel"] = dict(
    params=dict(window="int[]", kernel="real[]", mask_index="int", normalize="bool"), variants=_KVARIANTS,
    requires=["len(kernel) >= len(window)"], returns="real[]",
    ensures=["len(result) == len(window)",
             "forall(0, len(result), lambda j: implies(not is_none(mask_index) and window[j] == mask_index, result[j] == 0))",
             "implies(not normalize, forall(0, len(result), lambda j: implies(is_none(mask_index) or window[j] != mask_index, result[j] == kernel[j])))",
             "unchanged(window) and unchanged(kernel)"])

_TK = dict(window="int[]", time_deltas="real[]", delta="real", mask_index="int", normalize="bool", offset="int")
CONTRACTS[F + "timed_flat_kernel"] = dict(
    params=_TK, variants=_KVARIANTS, requires=_KPRE + ["len(window) == len(time_deltas)"], returns="real[]",
    ensures=["len(result) == len(window)",
             "forall(0, len(result), lambda j: implies(j < offset or (not is_none(mask_index) and window[j] == mask_index), result[j] == 0))",
             "implies(not normalize, forall(0, len(result), lambda j: implies(not (j < offset or (not is_none(mask_index) and window[j] == mask_index)), result[j] == 1)))"])
CONTRACTS[F + "timed_geometric_kernel"] = dict(
    params=dict(_TK, power="real"), variants=_KVARIANTS, requires=_KPRE + ["len(window) == len(time_deltas)", "delta > 0", "power > 0"], returns="real[]",
    ensures=["len(result) == len(window)",
             "forall(0, len(result), lambda j: implies(j < offset or (not is_none(mask_index) and window[j] == mask_index), result[j] == 0))"])

CONTRACTS[F + "fixed_window_radii"] = dict(
    params=dict(window_size="int", token_frequency="real[]", mask_index="int"), variants=_KVARIANTS,
    requires=["window_size >= 0", "implies(not is_none(mask_index), 0 <= mask_index and mask_index <= len(token_frequency))"],
    returns="int[]",
    ensures=["len(result) == len(token_frequency) + 1",
             "forall(0, len(result), lambda k: result[k] == (0 if (not is_none(mask_index) and k == mask_index) else window_size))"])

CONTRACTS[F + "binom"] = dict(params=dict(n="int", k="int"), requires=[], ensures=[],
                               loops={"for#1": dict(invariant=["denominator >= 1"])})

CONTRACTS[F + "difference_kernel"] = dict(
    params=dict(n_cols="int", start="int", step="int", stride="int", kernel_params="()"),
    requires=["n_cols >= 1", "start >= 0", "step >= 1", "stride >= 1", "start + step <= n_cols - 1"],
    ensures=[
        # one row per valid i: start + i*stride + step <= n_cols - 1
        "(len(result) - 1) * stride + start + step <= n_cols - 1",
        "len(result) * stride + start + step > n_cols - 1",
    ],
)

# variable radii: the real-valued formula is the definition; what matters for C03/C14 is the shape of the table and that a
# nullified mask gets radius exactly 0 (so it never opens a window) while no entry is negative
CONTRACTS[F + "variable_window_radii"] = dict(
    params=dict(window_size="int", token_frequency="real[]", mask_index="int", power="real"),
    variants=_KVARIANTS,
    requires=["window_size >= 0", "len(token_frequency) >= 1",
              "implies(not is_none(mask_index), 0 <= mask_index and mask_index <= len(token_frequency))"],
    returns="int[]",
    ensures=["len(result) == len(token_frequency) + 1",
             "implies(not is_none(mask_index), result[mask_index] == 0)",
             "unchanged(token_frequency)"],
)


# ---------------------------------------------------------------- multiset kernels (C03, C10, C14): one weight per element of the flattened window
# window[0] is the target's own multiset; cnt[j] = size of the multiset at distance j (ghost)
_MK_PARAMS = dict(window="list[int[]]", target_ind="int", mask_index="int", normalize="bool", offset="int")
_MK_PRE = ["offset >= 0", "len(window) >= 1", "0 <= target_ind and target_ind < len(window[0])"]
_OFFLEN = "psum(cnt, min(offset, len(window)))"       # number of flattened elements in the first `offset` multisets
_MASKED = ("implies(not is_none(mask_index), forall(0, {n}, lambda jj: forall(0, len(window[jj]), lambda q: "
           "implies(window[jj][q] == mask_index, {arr}[psum(cnt, jj) + q] == 0))))")
_MK_POST = [
    "len(result) == psum(cnt, len(window))",           # what the multiset event kernel assumes of its kernel functions
    "result[target_ind] == 0",                          # the target does not co-occur with its own occurrence
    "forall(0, %s, lambda p: result[p] == 0)" % _OFFLEN,   # kernel offset: the first `offset` multisets carry no weight
    "forall(0, len(result), lambda p: result[p] >= 0)",
]
_MK_INV2 = [   # the weighting loop: ind is the flattened position of multiset i
    "len(kernel_result) == result_len and result_len == psum(cnt, len(window)) and len(ker) == len(window)",
    "ind == psum(cnt, i)",
    "forall(0, len(kernel_result), lambda p: kernel_result[p] >= 0)",
    "forall(0, min(ind, %s), lambda p: kernel_result[p] == 0)" % _OFFLEN,
    "forall(ind, len(kernel_result), lambda p: kernel_result[p] == 0)",
    _MASKED.format(n="i", arr="kernel_result"),
]
_MK_INV3 = _MK_INV2[:1] + ["ind == psum(cnt, i)", "ind + len(mset) <= len(kernel_result)", "i < len(window) and len(mset) == cnt[i]",
                           "forall(0, len(kernel_result), lambda p: kernel_result[p] >= 0)",
                           "forall(0, min(ind, %s), lambda p: kernel_result[p] == 0)" % _OFFLEN,
                           "forall(ind + len(mset), len(kernel_result), lambda p: kernel_result[p] == 0)",
                           _MASKED.format(n="i", arr="kernel_result"),
                           # the part of the current multiset already scanned
                           "forall(0, w_i, lambda q: implies(window[i][q] == mask_index, kernel_result[ind + q] == 0))"]
CONTRACTS[F + "multi_flat_kernel"] = dict(
    params=_MK_PARAMS, variants=_KVARIANTS,
    local_types=dict(cnt="list[int]"),
    requires=_MK_PRE,
    returns="real[]",
    ghost_init="cnt = [len(m) for m in window]\nlemma(psum_monotone(cnt))",
    ensures=_MK_POST + ["implies(not normalize and is_none(mask_index), forall(%s, len(result), lambda p: p == target_ind or result[p] == 1))" % _OFFLEN],
    loops={
        "for#1": dict(invariant=["result_len == psum(cnt, _k_for1)"]),
        "for#2": dict(ghost_step=None, invariant=_MK_INV2 + [
            "implies(is_none(mask_index), forall(%s, ind, lambda p: kernel_result[p] == 1))" % _OFFLEN]),
        "for#3": dict(invariant=_MK_INV3),
    },
)

CONTRACTS[F + "multi_geometric_kernel"] = dict(
    params=dict(_MK_PARAMS, power="real"), variants=_KVARIANTS,
    local_types=dict(cnt="list[int]"),
    requires=_MK_PRE + ["power > 0"],
    returns="real[]",
    ghost_init="cnt = [len(m) for m in window]\nlemma(psum_monotone(cnt))",
    ghost_after=[("@assign:ker", 1, "assert forall(0, len(ker), lambda k: ker[k] > 0)")],
    # (the "weights elsewhere are positive" clause that the flat kernel has is not stated here: its preservation took the solver minutes)
    ensures=_MK_POST,
    loops={
        "for#1": dict(invariant=["result_len == psum(cnt, _k_for1)"]),
        "for#2": dict(invariant=_MK_INV2 + ["forall(0, len(ker), lambda k: ker[k] > 0)"]),
        "for#3": dict(invariant=_MK_INV3),
    },
)
