"""Block / chunk partition obligations of vectorizers/linear_optimal_transport.py (C08, C12).

Each contract is a *segment*: one `for i in range(n_blocks):` loop of the named function, sliced to the assignments of the
integer bookkeeping variables (everything else in the loop body is dropped and reported as unverified).  Ghost variable
`covered` records the end of the previous block: the blocks must be consecutive, start at 0 and end at n_rows."""
F = "vectorizers/linear_optimal_transport.py::"
CONTRACTS = {}


def block_loop(seg_ordinal, anchor_ordinal):
    return dict(
        locals=dict(n_rows="int", block_size="int", n_blocks="int"),
        requires=["n_rows >= 0", "block_size >= 1", "n_blocks >= 0 and n_blocks * block_size >= n_rows and (n_blocks - 1) * block_size <= n_rows"],
        segment=dict(start="for i in range(n_blocks):", start_ordinal=seg_ordinal, end=None, keep=["block_start", "block_end"]),
        ghost_init="covered = 0",
        ghost_after=[("@assign:block_end", anchor_ordinal,
                      "assert block_start == covered\nassert block_start <= block_end and block_end <= n_rows\ncovered = block_end")],
        ensures=["covered == n_rows"],
        loops={"@segment": dict(invariant=["covered == min(n_rows, i * block_size)", "i * block_size <= n_rows or i == n_blocks"])},
    )


# function -> number of block loops in it (each is the k-th `for i in range(n_blocks):` and has the k-th block_end assignment)
_BLOCK_LOOPS = {
    "lot_vectors_sparse": 1, "lot_vectors_dense": 1, "lot_vectors_dense_generator": 1, "sinkhorn_vectors_sparse": 1,
    "WassersteinVectorizer.transform": 4, "SinkhornVectorizer.transform": 1,
}
for fn, cnt in _BLOCK_LOOPS.items():
    for k in range(1, cnt + 1):
        CONTRACTS[F + "%s#blocks%d" % (fn, k)] = block_loop(k, k)


def chunk_loop(seg_ordinal, anchor_ordinal):
    return dict(
        locals=dict(n_rows="int", chunk_size="int", n_chunks="int"),
        requires=["n_rows >= 0", "chunk_size >= 1", "n_chunks >= 0 and n_chunks * chunk_size >= n_rows and (n_chunks - 1) * chunk_size <= n_rows"],
        segment=dict(start="for n in range(n_chunks):", start_ordinal=seg_ordinal, end=None, keep=["chunk_start", "chunk_end"]),
        ghost_init="covered = 0",
        ghost_after=[("@assign:chunk_end", anchor_ordinal,
                      "assert chunk_start == covered\nassert chunk_start <= chunk_end and chunk_end <= n_rows\ncovered = chunk_end")],
        ensures=["covered == n_rows"],
        loops={"@segment": dict(invariant=["covered == min(n_rows, n * chunk_size)", "n * chunk_size <= n_rows or n == n_chunks"])},
    )


for fn in ("lot_vectors_sparse_internal", "lot_vectors_dense_internal"):
    CONTRACTS[F + fn + "#chunks"] = chunk_loop(1, 1)


def inner_chunk_loop(seg_ordinal, anchor_ordinal, size_name):
    """`for j in range(n_chunks):` nested in a block loop: the chunks partition [block_start, block_end)."""
    return dict(
        locals={"block_start": "int", "block_end": "int", "n_chunks": "int", size_name: "int"},
        requires=["0 <= block_start and block_start <= block_end", "%s >= 1" % size_name, "n_chunks >= 0 and n_chunks * %s >= block_end - block_start and (n_chunks - 1) * %s <= block_end - block_start" % (size_name, size_name)],
        segment=dict(start="for j in range(n_chunks):", start_ordinal=seg_ordinal, end=None, keep=["chunk_start", "chunk_end"]),
        ghost_init="covered = block_start",
        ghost_after=[("@assign:chunk_end", anchor_ordinal,
                      "assert chunk_start == covered\nassert chunk_start <= chunk_end and chunk_end <= block_end\ncovered = chunk_end")],
        ensures=["covered == block_end"],
        loops={"@segment": dict(invariant=["covered == min(block_end, block_start + j * %s)" % size_name,
                                           "block_start + j * %s <= block_end or j == n_chunks" % size_name])},
    )


CONTRACTS[F + "SinkhornVectorizer.transform#chunks"] = inner_chunk_loop(1, 1, "self.chunk_size")
CONTRACTS[F + "WassersteinVectorizer.transform#sinkhorn_chunks"] = inner_chunk_loop(1, 1, "self.sinkhorn_chunk_size")
CONTRACTS[F + "sinkhorn_vectors_sparse#chunks"] = inner_chunk_loop(1, 2, "chunk_size")


# ---------------------------------------------------------------- the loop counts themselves
# The loop segments above take the number of blocks / chunks as a live-in local with the documented value; that value is
# computed by an assignment outside the loop.  Each such assignment is its own one-statement segment here, so that an edit
# of the count (e.g. dropping the "+ 1" that covers the remainder) fails an obligation instead of being assumed away.  What is
# required of the count is what the loop needs - enough blocks to reach the last row - not the literal formula.
def count_stmt(var, ordinal, cover, extra_locals=()):
    loc = {"n_rows": "int", "block_size": "int", "chunk_size": "int", "block_start": "int", "block_end": "int"}
    loc.update({n: "int" for n in extra_locals})
    return dict(
        locals=loc,
        requires=["n_rows >= 0", "block_size >= 1", "chunk_size >= 1", "0 <= block_start and block_start <= block_end"] + ["%s >= 1" % n for n in extra_locals],
        segment=dict(start="@assign:" + var, start_ordinal=ordinal, end=None),
        ensures=[cover],
    )


_NB = "n_blocks >= 0 and n_blocks * block_size >= n_rows and (n_blocks - 1) * block_size <= n_rows"
_COUNTS = {
    "lot_vectors_sparse_internal": [("n_chunks", 1, "n_chunks >= 0 and n_chunks * chunk_size >= n_rows and (n_chunks - 1) * chunk_size <= n_rows", ())],
    "lot_vectors_dense_internal": [("n_chunks", 1, "n_chunks >= 0 and n_chunks * chunk_size >= n_rows and (n_chunks - 1) * chunk_size <= n_rows", ())],
    "lot_vectors_sparse": [("n_blocks", 1, _NB, ())],
    "lot_vectors_dense": [("n_blocks", 1, _NB, ())],
    "lot_vectors_dense_generator": [("n_blocks", 1, _NB, ()), ("n_chunks", 2, "n_chunks >= 0 and n_chunks * chunk_size >= block_end - block_start and (n_chunks - 1) * chunk_size <= block_end - block_start", ())],
    "sinkhorn_vectors_sparse": [("n_blocks", 1, _NB, ()), ("n_chunks", 2, "n_chunks >= 0 and n_chunks * chunk_size >= block_end - block_start and (n_chunks - 1) * chunk_size <= block_end - block_start", ())],
    "WassersteinVectorizer.transform": [("n_blocks", 1, _NB, ()), ("n_blocks", 2, _NB, ()), ("n_blocks", 3, _NB, ()),
                                        ("n_chunks", 1, "n_chunks >= 0 and n_chunks * self.sinkhorn_chunk_size >= block_end - block_start and (n_chunks - 1) * self.sinkhorn_chunk_size <= block_end - block_start", ("self.sinkhorn_chunk_size",)),
                                        ("n_chunks", 2, "n_chunks >= 0 and n_chunks * chunk_size >= block_end - block_start and (n_chunks - 1) * chunk_size <= block_end - block_start", ())],
    "SinkhornVectorizer.transform": [("n_blocks", 1, _NB, ()), ("n_chunks", 1, "n_chunks >= 0 and n_chunks * self.chunk_size >= block_end - block_start and (n_chunks - 1) * self.chunk_size <= block_end - block_start", ("self.chunk_size",))],
}
for _fn, _lst in _COUNTS.items():
    for _var, _k, _formula, _extra in _lst:
        CONTRACTS[F + "%s#count_%s%d" % (_fn, _var, _k)] = count_stmt(_var, _k, _formula, _extra)

