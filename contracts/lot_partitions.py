"""Block / chunk partition obligations of vectorizers/linear_optimal_transport.py (C08, C12).

Each contract is a *segment*: one `for i in range(n_blocks):` loop of the named function, sliced to the assignments of the
integer bookkeeping variables (everything else in the loop body is dropped and reported as unverified).  Ghost variable
`covered` records the end of the previous block: the blocks must be consecutive, start at 0 and end at n_rows."""
F = "vectorizers/linear_optimal_transport.py::"
CONTRACTS = {}


def block_loop(seg_ordinal, anchor_ordinal):
    return dict(
        locals=dict(n_rows="int", block_size="int", n_blocks="int"),
        requires=["n_rows >= 0", "block_size >= 1", "n_blocks == n_rows // block_size + 1"],
        segment=dict(start="for i in range(n_blocks):", start_ordinal=seg_ordinal, end=None, keep=["block_start", "block_end"]),
        ghost_init="covered = 0",
        ghost_after=[("@assign:block_end", anchor_ordinal,
                      "assert block_start == covered\nassert block_start <= block_end and block_end <= n_rows\ncovered = block_end")],
        ensures=["covered == n_rows"],
        loops={"@segment": dict(invariant=["covered == min(n_rows, i * block_size)", "i * block_size <= n_rows or i == n_blocks"])},
    )


# function -> number of block loops in it (each is the k-th `for i in range(n_blocks):` and has the k-th block_end assignment)
_BLOCK_LOOPS = {
    "lot_vectors_sparse": 1, "lot_vectors_dense": 1, "lot_vectors_dense_generator": 1, "sinkhorn_vectors_sparse": 1,
    "WassersteinVectorizer.transform": 4, "SinkhornVectorizer.transform": 1,
}
for fn, cnt in _BLOCK_LOOPS.items():
    for k in range(1, cnt + 1):
        CONTRACTS[F + "%s#blocks%d" % (fn, k)] = block_loop(k, k)


def chunk_loop(seg_ordinal, anchor_ordinal):
    return dict(
        locals=dict(n_rows="int", chunk_size="int", n_chunks="int"),
        requires=["n_rows >= 0", "chunk_size >= 1", "n_chunks == n_rows // chunk_size + 1"],
        segment=dict(start="for n in range(n_chunks):", start_ordinal=seg_ordinal, end=None, keep=["chunk_start", "chunk_end"]),
        ghost_init="covered = 0",
        ghost_after=[("@assign:chunk_end", anchor_ordinal,
                      "assert chunk_start == covered\nassert chunk_start <= chunk_end and chunk_end <= n_rows\ncovered = chunk_end")],
        ensures=["covered == n_rows"],
        loops={"@segment": dict(invariant=["covered == min(n_rows, n * chunk_size)", "n * chunk_size <= n_rows or n == n_chunks"])},
    )


for fn in ("lot_vectors_sparse_internal", "lot_vectors_dense_internal"):
    CONTRACTS[F + fn + "#chunks"] = chunk_loop(1, 1)


def inner_chunk_loop(seg_ordinal, anchor_ordinal, size_name):
    """`for j in range(n_chunks):` nested in a block loop: the chunks partition [block_start, block_end)."""
    return dict(
        locals={"block_start": "int", "block_end": "int", "n_chunks": "int", size_name: "int"},
        requires=["0 <= block_start and block_start <= block_end", "%s >= 1" % size_name, "n_chunks == (block_end - block_start) // %s + 1" % size_name],
        segment=dict(start="for j in range(n_chunks):", start_ordinal=seg_ordinal, end=None, keep=["chunk_start", "chunk_end"]),
        ghost_init="covered = block_start",
        ghost_after=[("@assign:chunk_end", anchor_ordinal,
                      "assert chunk_start == covered\nassert chunk_start <= chunk_end and chunk_end <= block_end\ncovered = chunk_end")],
        ensures=["covered == block_end"],
        loops={"@segment": dict(invariant=["covered == min(block_end, block_start + j * %s)" % size_name,
                                           "block_start + j * %s <= block_end or j == n_chunks" % size_name])},
    )


CONTRACTS[F + "SinkhornVectorizer.transform#chunks"] = inner_chunk_loop(1, 1, "self.chunk_size")
CONTRACTS[F + "WassersteinVectorizer.transform#sinkhorn_chunks"] = inner_chunk_loop(1, 1, "self.sinkhorn_chunk_size")
CONTRACTS[F + "sinkhorn_vectors_sparse#chunks"] = inner_chunk_loop(1, 2, "chunk_size")
