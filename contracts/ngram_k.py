"""Contracts for ngram_vectorizer.py::ngrams_of and coo_utils.py::sum_coo_entries (C06, C10)."""
N = "vectorizers/ngram_vectorizer.py::"
CU = "vectorizers/coo_utils.py::"
CONTRACTS = {}

# ngram_behaviour is a string parameter: one variant per documented value (python string equality is decided concretely)
# subgrams: position i contributes the runs sequence[i:i+j] for j = 1..min(n, len - i); _CNT[t] is that number
_CNT = "cnt"   # ghost list, built once: cnt[t] = min(ngram_size, len(sequence) - t)
_SUB = "ngram_behaviour == 'subgrams'"
_RUN_SHAPE = ("len(starts) == len(result) and forall(0, len(result), lambda g: 1 <= len(result[g]) and len(result[g]) <= ngram_size and 0 <= starts[g] and "
              "starts[g] + len(result[g]) <= len(sequence))")
_RUN_ELEMS = "forall(0, len(result), lambda g: forall(0, len(result[g]), lambda t: result[g][t] == sequence[starts[g] + t]))"
CONTRACTS[N + "ngrams_of"] = dict(
    params=dict(sequence="int[]", ngram_size="int", ngram_behaviour="strconst:exact"),
    variants=[dict(ngram_behaviour="strconst:exact"), dict(ngram_behaviour="strconst:subgrams")],
    local_types=dict(result="list[int[]]", starts="list[int]", cnt="list[int]"),
    requires=["ngram_size >= 1"],
    returns="list[int[]]",
    # ghost: cnt[t] = number of runs starting at t; starts[g] = where the g-th emitted run starts
    ghost_init="cnt = [min(ngram_size, len(sequence) - t) for t in range(len(sequence))]\nstarts = []",
    ghost_after=[("result.append(sequence[i:i + j])", 1, "starts.append(i)")],
    ensures=[
        # exact: the runs of n consecutive elements, in order; every slice is in range
        "implies(ngram_behaviour == 'exact', len(result) == max(0, len(sequence) - ngram_size + 1))",
        "implies(ngram_behaviour == 'exact', forall(0, len(result), lambda g: len(result[g]) == ngram_size))",
        "implies(ngram_behaviour == 'exact', forall(0, len(result), lambda g: forall(0, ngram_size, lambda t: result[g][t] == sequence[g + t])))",
        "unchanged(sequence)",
        # subgrams: exactly sum_i min(n, len - i) runs are emitted (so a document shorter than n still yields its shorter runs)
        "implies(%s, len(result) == psum(%s, len(sequence)))" % (_SUB, _CNT),
    ],
    # ... and each of them is a contiguous run of 1..n elements of the sequence (starts is ghost)
    ensures_ghost=["implies(%s, %s)" % (_SUB, _RUN_SHAPE), "implies(%s, %s)" % (_SUB, _RUN_ELEMS)],
    loops={
        "for#1": dict(invariant=[
            "implies(ngram_behaviour == 'exact', len(result) == min(i, max(0, len(sequence) - ngram_size + 1)))",
            "implies(ngram_behaviour == 'exact', forall(0, len(result), lambda g: len(result[g]) == ngram_size))",
            "implies(ngram_behaviour == 'exact', forall(0, len(result), lambda g: forall(0, ngram_size, lambda t: result[g][t] == sequence[g + t])))",
            "implies(%s, len(result) == psum(%s, i))" % (_SUB, _CNT),
            "implies(%s, %s)" % (_SUB, _RUN_SHAPE), "implies(%s, %s)" % (_SUB, _RUN_ELEMS),
        ]),
        "for#2": dict(ghost_init="lemma(psum_bound(%s, i, len(sequence)))" % _CNT,
                      invariant=["len(result) == psum(%s, i) + min(_k_for2, len(sequence) - i)" % _CNT,
                                 _RUN_SHAPE, _RUN_ELEMS]),
    },
)

CONTRACTS[CU + "sum_coo_entries"] = dict(
    params=dict(seq="list[(real,real,real)]"),
    local_types=dict(reduced_data="list[(real,real,real)]"),
    requires=["len(seq) >= 1"],   # callers seed the list with (0, 0, 0)
    modifies=["seq"],
    returns="list[(real,real,real)]",
    ensures=[
        "len(result) >= 1 and len(result) <= len(seq)",
        # output coordinates strictly increasing (lexicographically): one entry per distinct coordinate
        "forall(0, len(result) - 1, lambda k: result[k][0] < result[k + 1][0] or (result[k][0] == result[k + 1][0] and result[k][1] < result[k + 1][1]))",
    ],
    loops={"for#1": dict(invariant=[
        "len(reduced_data) <= max(0, _k_for1 - 1)",
        "implies(_k_for1 < len(seq), this_coord[0] < seq[_k_for1][0] or (this_coord[0] == seq[_k_for1][0] and this_coord[1] <= seq[_k_for1][1]))",
        "implies(_k_for1 > 0, this_coord[0] == seq[_k_for1 - 1][0] and this_coord[1] == seq[_k_for1 - 1][1])",
        "implies(_k_for1 == 0, this_coord[0] == seq[0][0] and this_coord[1] == seq[0][1])",
        "forall(0, len(reduced_data) - 1, lambda k: reduced_data[k][0] < reduced_data[k + 1][0] or (reduced_data[k][0] == reduced_data[k + 1][0] and reduced_data[k][1] < reduced_data[k + 1][1]))",
        "implies(len(reduced_data) > 0, reduced_data[len(reduced_data) - 1][0] < this_coord[0] or (reduced_data[len(reduced_data) - 1][0] == this_coord[0] and reduced_data[len(reduced_data) - 1][1] < this_coord[1]))",
    ])},
)

SK = "vectorizers/skip_gram_vectorizer.py::"
CONTRACTS[SK + "build_skip_grams"] = dict(
    params=dict(token_sequence="int[]", window_sizes="int[]", kernel_function="func", kernel_args="()", reverse="bool"),
    func_params={"kernel_function": dict(returns="real[]", ensures=["len(ret) == len(arg0)"])},
    requires=[
        # every token id indexes the per-token radius table, radii are non-negative
        "forall(0, len(token_sequence), lambda p: 0 <= token_sequence[p] and token_sequence[p] < len(window_sizes))",
        "forall(0, len(window_sizes), lambda t: window_sizes[t] >= 0)",
    ],
    returns="list[(real,real,real)]",
    # the seeded (0, 0, 0) entry is what makes sum_coo_entries' precondition (non-empty list) hold for an empty document
    ensures=["len(result) >= 1", "unchanged(token_sequence) and unchanged(window_sizes)"],
    loops={"for#1": dict(invariant=["len(coo_tuples) >= 1"])},
)

# the corpus-level wrapper: one seeded record, every document's records appended, duplicates summed
CONTRACTS[SK + "sequence_skip_grams"] = dict(
    params=dict(token_sequences="list[int[]]", window_sizes="int[]", kernel_function="func", kernel_args="()", reverse="bool"),
    func_params={"kernel_function": dict(returns="real[]", ensures=["len(ret) == len(arg0)"])},
    local_types=dict(skip_grams="list[(real,real,real)]"),
    requires=[
        "forall(0, len(token_sequences), lambda d: forall(0, len(token_sequences[d]), lambda p: 0 <= token_sequences[d][p] and token_sequences[d][p] < len(window_sizes)))",
        "forall(0, len(window_sizes), lambda t: window_sizes[t] >= 0)",
    ],
    returns="real[,]",
    # one (head, tail, weight) row per distinct pair, at least the seeded one
    ensures=["result.shape[0] >= 1 and result.shape[1] == 3", "unchanged(window_sizes)"],
    loops={"for#1": dict(invariant=["len(skip_grams) >= 1"])},
)
