"""Contracts for the event-emitting kernels (C03, C04, C10): token_cooccurrence_vectorizer.py::numba_build_skip_grams."""
T = "vectorizers/token_cooccurrence_vectorizer.py::"
CONTRACTS = {}

_SEQ_PRE = [
    "n_unique_tokens >= 1",
    "len(window_reversals) == len(window_size_array) and len(mix_weights) == len(window_size_array) and len(array_lengths) == len(window_size_array)",
    # established by the glue: every token id indexes the radius table (ids < number of columns), radii are non-negative
    "forall(0, len(token_sequences), lambda d: forall(0, len(token_sequences[d]), lambda p: 0 <= token_sequences[d][p] and token_sequences[d][p] < window_size_array.shape[1]))",
    "forall(0, window_size_array.shape[0], lambda a: forall(0, window_size_array.shape[1], lambda b: window_size_array[a, b] >= 0))",
    # buffer sizes as produced by _set_coo_sizes (floored at 8): at least two slots
    "forall(0, len(array_lengths), lambda a: array_lengths[a] >= 2)",
]
_COO_INV = ("len(coo_data) == n_windows and forall(0, n_windows, lambda c: WF(coo_data[c]) and coo_data[c].ind[0] <= len(coo_data[c].key) - 2) "
            # C04 at kernel level: for an arbitrary key KEY, what accumulator c stores under KEY is exactly the ghost total tot[c] of the values
            # of the events the kernel has emitted into it with that key; every stored entry carries the cell of its key
            "and len(tot) == n_windows and forall(0, n_windows, lambda c: KEYED(coo_data[c]) and W(coo_data[c]) == tot[c])")
# key = col + array_mul * row with 0 <= col < array_mul: the key determines the cell
_DEFINE_CELL = ("define('ROWOF', lambda k: k // array_mul)\ndefine('COLOF', lambda k: k % array_mul)\n"
                "by(array_mul >= 1, array_mul == n_windows * n_unique_tokens + 1, n_windows >= 0, n_unique_tokens >= 1)")
# every context id comes out of the sequence, so it indexes the radius table: 0 <= context <= n_unique_tokens
_WINDOWS_BOUND = "assert forall(0, len(windows), lambda t: forall(0, len(windows[t]), lambda q: 0 <= windows[t][q] and windows[t][q] <= n_unique_tokens))"
# the two small non-linear facts behind "the key determines the cell", each proved in isolation from the listed (linear) facts
_KEY_CELL = ("by(0 <= col and col < array_mul, col == context + i * n_unique_tokens, array_mul == n_windows * n_unique_tokens + 1, "
             "0 <= i, i < n_windows, 0 <= context, context <= n_unique_tokens, n_unique_tokens >= 1)\n"
             "by(key >= 0 and key // array_mul == row and key % array_mul == col, key == col + array_mul * row, 0 <= col, col < array_mul, "
             "row >= 0, array_mul >= 1)\n"
             # ... which is the cell the accumulator's ghost functions assign to this key
             "unfold('ROWOF', key)\nunfold('COLOF', key)\n"
             "by(ROWOF(key) == row and COLOF(key) == col, ROWOF(key) == key // array_mul, COLOF(key) == key % array_mul, "
             "key // array_mul == row, key % array_mul == col)")
_INTRO = ("intro_all('WF', coo_data)\nintro_all('KEYED', coo_data)\ntot = np.zeros(n_windows)\n"
          "assert forall(0, n_windows, lambda c: coo_data[c].ind[0] == 0 and len(coo_data[c].key) >= 2 and W(coo_data[c]) == 0)")
_EMIT = "tot[i] = tot[i] + ite(key == KEY, val, 0)"
_FINAL = ("len(coo_data) == n_windows and len(tot) == n_windows and "
          "forall(0, n_windows, lambda c: WF(coo_data[c]) and KEYED(coo_data[c]) and W(coo_data[c]) == tot[c])")
CONTRACTS[T + "numba_build_skip_grams"] = dict(
    params=dict(token_sequences="list[int[]]", window_size_array="int[,]", window_reversals="bool[]", kernel_functions="funcs", kernel_args="opaque",
                mix_weights="real[]", normalize_windows="bool", n_unique_tokens="int", array_lengths="int[]"),
    symbolic_consts={"COO_QUICKSORT_LIMIT": "int; COO_QUICKSORT_LIMIT >= 1"},
    func_params={"kernel_functions": dict(returns="real[]", ensures=["len(ret) == len(arg0)"])},
    local_types=dict(kernels="list[real[]]"),
    # WF is used as an abstract predicate of the accumulator's contents here: introduced (with its definition proved) where the
    # accumulators are created, preserved by the accumulator functions' own contracts (proved with the definition in coo_utils)
    abstract_macros=["WF", "KEYED"],
    ghost_params={"KEY": "int"},
    ghost_after=[("@assign:array_mul", 1, _DEFINE_CELL), ("@assign:coo_data", 1, _INTRO), ("@assign:windows", 1, _WINDOWS_BOUND),
                 ("@assign:key", 1, _KEY_CELL), ("@call:coo_append", 1, _EMIT)],
    requires=_SEQ_PRE + ["window_size_array.shape[1] <= n_unique_tokens + 1"],
    ensures=["len(result) == len(window_size_array)"],
    ensures_ghost=["forall(0, len(result), lambda c: W(result[c]) == tot[c])"],
    loops={
        "for#1": dict(invariant=[_COO_INV]),
        "for#2": dict(invariant=[_COO_INV]),
        "for#3": dict(invariant=[_COO_INV, "len(windows) == n_windows and len(kernels) == i",
                                 "forall(0, i, lambda t: len(kernels[t]) == len(windows[t]))"]),
        "for#4": dict(invariant=[_COO_INV, "len(windows) == n_windows and len(kernels) == n_windows", "forall(0, n_windows, lambda t: len(kernels[t]) == len(windows[t]))"]),
        "for#5": dict(invariant=[_COO_INV, "len(windows) == n_windows and len(kernels) == n_windows", "forall(0, n_windows, lambda t: len(kernels[t]) == len(windows[t]))",
                                 "len(this_ker) == len(window)"]),
        "for#6": dict(invariant=[_FINAL]),
    },
)

# ---------------------------------------------------------------- n-gram variant
NGK = "vectorizers/ngram_token_cooccurence_vectorizer.py::"
_NG_PRE = [
    "n_unique_tokens >= 1", "ngram_size >= 1",
    "len(window_reversals) == len(window_size_array) and len(mix_weights) == len(window_size_array) and len(array_lengths) == len(window_size_array)",
    # every n-gram index indexes the per-n-gram radius table; radii non-negative; buffers have at least two slots
    "dict_values_in(ngram_dictionary, 0, window_size_array.shape[1])",
    "forall(0, window_size_array.shape[0], lambda a: forall(0, window_size_array.shape[1], lambda b: window_size_array[a, b] >= 0))",
    "forall(0, len(array_lengths), lambda a: array_lengths[a] >= 2)",
]
CONTRACTS[NGK + "numba_build_skip_grams"] = dict(
    params=dict(token_sequences="list[int[]]", window_size_array="int[,]", window_reversals="bool[]", kernel_functions="funcs", kernel_args="opaque",
                mix_weights="real[]", normalize_windows="bool", n_unique_tokens="int", array_lengths="int[]", ngram_dictionary="dict[str,int]",
                ngram_size="int", array_to_tuple="func"),
    symbolic_consts={"COO_QUICKSORT_LIMIT": "int; COO_QUICKSORT_LIMIT >= 1"},
    func_params={"kernel_functions": dict(returns="real[]", ensures=["len(ret) == len(arg0)"]), "array_to_tuple": dict(returns="keyfn")},
    abstract_macros=["WF", "KEYED"],
    ghost_params={"KEY": "int"},
    ghost_after=[("@assign:array_mul", 1, _DEFINE_CELL), ("@assign:coo_data", 1, _INTRO), ("@assign:windows", 1, _WINDOWS_BOUND),
                 ("@assign:key", 1, _KEY_CELL), ("@call:coo_append", 1, _EMIT)],
    # context ids are token ids (columns), rows are n-gram indices
    requires=_NG_PRE + ["forall(0, len(token_sequences), lambda d: forall(0, len(token_sequences[d]), lambda p: 0 <= token_sequences[d][p] and token_sequences[d][p] <= n_unique_tokens))"],
    ensures=["len(result) == len(window_size_array)"],
    ensures_ghost=["forall(0, len(result), lambda c: W(result[c]) == tot[c])"],
    loops={
        "for#1": dict(invariant=[_COO_INV, "len(window_reversal_const) == len(window_reversals)"]),
        "for#2": dict(invariant=[_COO_INV, "len(window_reversal_const) == len(window_reversals)",
                                 "forall(0, len(window_reversal_const), lambda t: window_reversal_const[t] == 0 or window_reversal_const[t] == 1)"]),
        "for#3": dict(invariant=[_COO_INV, "len(windows) == n_windows and len(kernels) == n_windows", "forall(0, n_windows, lambda t: len(kernels[t]) == len(windows[t]))"]),
        "for#4": dict(invariant=[_COO_INV, "len(windows) == n_windows and len(kernels) == n_windows", "forall(0, n_windows, lambda t: len(kernels[t]) == len(windows[t]))",
                                 "len(this_ker) == len(window)"]),
        "for#5": dict(invariant=[_FINAL]),
    },
)

# ---------------------------------------------------------------- timed variant: sequences are (n, 2) float arrays of (token id, timestamp)
TM = "vectorizers/timed_token_cooccurrence_vectorizer.py::"
CONTRACTS[TM + "numba_build_skip_grams"] = dict(
    params=dict(token_sequences="list[real[,2]]", window_size_array="int[,]", window_reversals="bool[]", kernel_functions="funcs", kernel_args="opaque",
                mix_weights="real[]", normalize_windows="bool", n_unique_tokens="int", array_lengths="int[]"),
    symbolic_consts={"COO_QUICKSORT_LIMIT": "int; COO_QUICKSORT_LIMIT >= 1"},
    func_params={"kernel_functions": dict(returns="real[]", ensures=["len(ret) == len(arg0)"])},
    local_types=dict(kernels="list[real[]]", windows="list[int[]]"),
    inline_calls=["window_at_index"],   # called on a 2-D array here; its body is two slices
    abstract_macros=["WF", "KEYED"],
    ghost_params={"KEY": "int"},
    ghost_after=[("@assign:array_mul", 1, _DEFINE_CELL), ("@assign:coo_data", 1, _INTRO),
                 ("@assign:key", 1, _KEY_CELL), ("@call:coo_append", 1, _EMIT)],
    requires=[
        "n_unique_tokens >= 1",
        "len(window_reversals) == len(window_size_array) and len(mix_weights) == len(window_size_array) and len(array_lengths) == len(window_size_array)",
        "forall(0, len(token_sequences), lambda d: forall(0, len(token_sequences[d]), lambda p: 0 <= token_sequences[d][p, 0] and token_sequences[d][p, 0] < window_size_array.shape[1]))",
        "forall(0, window_size_array.shape[0], lambda a: forall(0, window_size_array.shape[1], lambda b: window_size_array[a, b] >= 0))",
        "forall(0, len(array_lengths), lambda a: array_lengths[a] >= 2)",
        "window_size_array.shape[1] <= n_unique_tokens + 1",
    ],
    ensures=["len(result) == len(window_size_array)"],
    ensures_ghost=["forall(0, len(result), lambda c: W(result[c]) == tot[c])"],
    loops={
        "for#1": dict(invariant=[_COO_INV]),
        "for#2": dict(invariant=[_COO_INV]),
        "for#3": dict(invariant=[_COO_INV, "len(windows) == i and len(kernels) == i", "forall(0, i, lambda t: len(kernels[t]) == len(windows[t]))",
                                 "forall(0, i, lambda t: forall(0, len(windows[t]), lambda q: 0 <= windows[t][q] and windows[t][q] <= n_unique_tokens))"]),
        "for#4": dict(invariant=[_COO_INV, "len(windows) == n_windows and len(kernels) == n_windows", "forall(0, n_windows, lambda t: len(kernels[t]) == len(windows[t]))"]),
        "for#5": dict(invariant=[_COO_INV, "len(windows) == n_windows and len(kernels) == n_windows", "forall(0, n_windows, lambda t: len(kernels[t]) == len(windows[t]))",
                                 "len(this_ker) == len(window)"]),
        "for#6": dict(invariant=[_FINAL]),
    },
)

# ---------------------------------------------------------------- multiset variant (one document = a list of multisets)
MS = "vectorizers/multi_token_cooccurence_vectorizer.py::"
_LENS = "[len(m) for m in multi_window]"
_TWB = "forall(0, j, lambda q: 0 <= this_window[q] and this_window[q] <= n_unique_tokens)"
_MW = ["len(windows) == i and len(kernels) == i", "forall(0, i, lambda t: len(kernels[t]) == len(windows[t]))"]
CONTRACTS[MS + "numba_build_multi_skip_grams"] = dict(
    params=dict(token_sequences="list[int[]]", window_size_array="int[,]", window_reversals="bool[]", kernel_functions="funcs", kernel_args="opaque",
                mix_weights="real[]", normalize_windows="bool", n_unique_tokens="int", array_lengths="int[]"),
    symbolic_consts={"COO_QUICKSORT_LIMIT": "int; COO_QUICKSORT_LIMIT >= 1"},
    # a multiset kernel returns one weight per element of the flattened window
    func_params={"kernel_functions": dict(returns="real[]", ensures=["len(ret) == psum([len(m) for m in arg0], len(arg0))"])},
    local_types=dict(kernels="list[real[]]", windows="list[int[]]"),
    abstract_macros=["WF", "KEYED"],
    ghost_params={"KEY": "int"},
    ghost_after=[("@assign:array_mul", 1, _DEFINE_CELL), ("@assign:coo_data", 1, _INTRO),
                 ("@assign:key", 1, _KEY_CELL), ("@call:coo_append", 1, _EMIT),
                 ("@assign:result_len", 1, "lemma(psum_monotone(%s))" % _LENS)],
    requires=[
        "n_unique_tokens >= 1", "window_size_array.shape[1] >= 1",
        "len(window_reversals) == len(window_size_array) and len(mix_weights) == len(window_size_array) and len(array_lengths) == len(window_size_array)",
        "forall(0, window_size_array.shape[0], lambda a: forall(0, window_size_array.shape[1], lambda b: window_size_array[a, b] >= 0))",
        "forall(0, len(array_lengths), lambda a: array_lengths[a] >= 2)",
        # every token id is a row / column id
        "forall(0, len(token_sequences), lambda d: forall(0, len(token_sequences[d]), lambda p: 0 <= token_sequences[d][p] and token_sequences[d][p] <= n_unique_tokens))",
    ],
    ensures=["len(result) == len(window_size_array)"],
    ensures_ghost=["forall(0, len(result), lambda c: W(result[c]) == tot[c])"],
    loops={
        "for#1": dict(invariant=[_COO_INV]),
        "for#2": dict(invariant=[_COO_INV]),
        "for#3": dict(invariant=[_COO_INV] + _MW + ["forall(0, i, lambda t: forall(0, len(windows[t]), lambda q: 0 <= windows[t][q] and windows[t][q] <= n_unique_tokens))"]),
        "for#4": dict(invariant=["result_len == psum(%s, _k_for4)" % _LENS]),
        "for#5": dict(invariant=["j == psum(%s, _k_for5)" % _LENS, "len(this_window) == result_len and result_len == psum(%s, len(multi_window))" % _LENS, _TWB]),
        # the remaining elements of this multiset fit below result_len (a ground instance of the prefix-sum lemma, introduced once per
        # multiset): the store index is then linear arithmetic
        "for#6": dict(ghost_init="lemma(psum_bound(%s, _k_for5, len(multi_window)))" % _LENS,
                      invariant=["j == psum(%s, _k_for5) + _k_for6" % _LENS, "len(this_window) == result_len and result_len == psum(%s, len(multi_window))" % _LENS, _TWB,
                                 "j + len(mset) - _k_for6 <= result_len"]),
        "for#7": dict(invariant=[_COO_INV, "len(windows) == n_windows and len(kernels) == n_windows", "forall(0, n_windows, lambda t: len(kernels[t]) == len(windows[t]))"]),
        "for#8": dict(invariant=[_COO_INV, "len(windows) == n_windows and len(kernels) == n_windows", "forall(0, n_windows, lambda t: len(kernels[t]) == len(windows[t]))",
                                 "len(this_ker) == len(window)"]),
        "for#9": dict(invariant=[_FINAL]),
    },
)


# ---------------------------------------------------------------- EM iteration kernels (C10, C11): one pass over the corpus, em_update_matrix by contract
_CSR = ["len(prior_indices) == len(prior_data)", "len(prior_indptr) >= 1",
        "forall(0, len(prior_indptr) - 1, lambda r: 0 <= prior_indptr[r] and prior_indptr[r] <= prior_indptr[r + 1] and prior_indptr[r + 1] <= len(prior_indices))"]
_EM_COMMON = [
    "n_unique_tokens >= 1",
    "len(window_reversals) == len(window_size_array) and len(mix_weights) == len(window_size_array)",
    "forall(0, window_size_array.shape[0], lambda a: forall(0, window_size_array.shape[1], lambda b: window_size_array[a, b] >= 0))",
]
CONTRACTS[T + "numba_em_cooccurrence_iteration"] = dict(
    params=dict(token_sequences="list[int[]]", window_size_array="int[,]", window_reversals="bool[]", kernel_functions="funcs", kernel_args="opaque",
                mix_weights="real[]", n_unique_tokens="int", prior_indices="int[]", prior_indptr="int[]", prior_data="real[]"),
    func_params={"kernel_functions": dict(returns="real[]", ensures=["len(ret) == len(arg0)"])},
    local_types=dict(kernels="list[real[]]"),
    requires=_EM_COMMON + _CSR + [
        # every token id indexes the radius table and is a row of the CSR matrix being refined
        "forall(0, len(token_sequences), lambda d: forall(0, len(token_sequences[d]), lambda p: 0 <= token_sequences[d][p] and "
        "token_sequences[d][p] < window_size_array.shape[1] and token_sequences[d][p] + 1 < len(prior_indptr)))",
    ],
    returns="real[]",
    ensures=["len(result) == len(prior_data)", "unchanged(prior_data) and unchanged(prior_indices) and unchanged(prior_indptr)"],
    loops={
        "for#1": dict(invariant=["len(posterior_data) == len(prior_data)", "len(window_reversal_const) == len(window_reversals)"]),
        "for#2": dict(invariant=["len(posterior_data) == len(prior_data)", "len(window_reversal_const) == len(window_reversals)"]),
    },
)

CONTRACTS[NGK + "numba_em_cooccurrence_iteration"] = dict(
    params=dict(token_sequences="list[int[]]", window_size_array="int[,]", window_reversals="bool[]", kernel_functions="funcs", kernel_args="opaque",
                mix_weights="real[]", n_unique_tokens="int", prior_indices="int[]", prior_indptr="int[]", prior_data="real[]",
                ngram_dictionary="dict[str,int]", ngram_size="int", array_to_tuple="func"),
    func_params={"kernel_functions": dict(returns="real[]", ensures=["len(ret) == len(arg0)"]), "array_to_tuple": dict(returns="keyfn")},
    local_types=dict(kernels="list[real[]]"),
    requires=_EM_COMMON + _CSR + [
        "ngram_size >= 1",
        # every fitted n-gram index indexes the radius table and is a row of the CSR matrix being refined
        "dict_values_in(ngram_dictionary, 0, window_size_array.shape[1])", "dict_values_in(ngram_dictionary, 0, len(prior_indptr) - 1)",
    ],
    returns="real[]",
    ensures=["len(result) == len(prior_data)", "unchanged(prior_data) and unchanged(prior_indices) and unchanged(prior_indptr)"],
    loops={
        "for#1": dict(invariant=["len(posterior_data) == len(prior_data)", "len(window_reversal_const) == len(window_reversals)",
                                 "forall(0, len(window_reversal_const), lambda t: window_reversal_const[t] == 0 or window_reversal_const[t] == 1)"]),
        "for#2": dict(invariant=["len(posterior_data) == len(prior_data)", "len(window_reversal_const) == len(window_reversals)",
                                 "forall(0, len(window_reversal_const), lambda t: window_reversal_const[t] == 0 or window_reversal_const[t] == 1)"]),
    },
)

CONTRACTS[TM + "numba_em_cooccurrence_iteration"] = dict(
    params=dict(token_sequences="list[real[,2]]", window_size_array="int[,]", window_reversals="bool[]", kernel_functions="funcs", kernel_args="opaque",
                mix_weights="real[]", n_unique_tokens="int", prior_indices="int[]", prior_indptr="int[]", prior_data="real[]"),
    func_params={"kernel_functions": dict(returns="real[]", ensures=["len(ret) == len(arg0)"])},
    local_types=dict(kernels="list[real[]]", windows="list[int[]]"),
    inline_calls=["window_at_index"],
    requires=_EM_COMMON + _CSR + [
        "forall(0, len(token_sequences), lambda d: forall(0, len(token_sequences[d]), lambda p: 0 <= token_sequences[d][p, 0] and "
        "token_sequences[d][p, 0] < window_size_array.shape[1] and token_sequences[d][p, 0] + 1 < len(prior_indptr)))",
    ],
    returns="real[]",
    ensures=["len(result) == len(prior_data)", "unchanged(prior_data) and unchanged(prior_indices) and unchanged(prior_indptr)"],
    loops={
        "for#1": dict(invariant=["len(posterior_data) == len(prior_data)"]),
        "for#2": dict(invariant=["len(posterior_data) == len(prior_data)"]),
        "for#3": dict(invariant=["len(windows) == i and len(kernels) == i", "forall(0, i, lambda t: len(kernels[t]) == len(windows[t]))"]),
    },
)

# multiset EM iteration: the window-flattening loops of the build kernel + em_update_matrix by contract
CONTRACTS[MS + "numba_multi_em_cooccurrence_iteration"] = dict(
    params=dict(token_sequences="list[int[]]", window_size_array="int[,]", window_reversals="bool[]", kernel_functions="funcs", kernel_args="opaque",
                mix_weights="real[]", n_unique_tokens="int", prior_indices="int[]", prior_indptr="int[]", prior_data="real[]"),
    func_params={"kernel_functions": dict(returns="real[]", ensures=["len(ret) == psum([len(m) for m in arg0], len(arg0))"])},
    local_types=dict(kernels="list[real[]]", windows="list[int[]]"),
    ghost_after=[("@assign:result_len", 1, "lemma(psum_monotone(%s))" % _LENS)],
    requires=_EM_COMMON + _CSR + [
        "window_size_array.shape[1] >= 1",
        "forall(0, len(token_sequences), lambda d: forall(0, len(token_sequences[d]), lambda p: 0 <= token_sequences[d][p] and "
        "token_sequences[d][p] + 1 < len(prior_indptr)))",
    ],
    returns="real[]",
    ensures=["len(result) == len(prior_data)", "unchanged(prior_data) and unchanged(prior_indices) and unchanged(prior_indptr)"],
    loops={
        "for#1": dict(invariant=["len(posterior_data) == len(prior_data)"]),
        "for#2": dict(invariant=["len(posterior_data) == len(prior_data)"]),
        "for#3": dict(invariant=_MW),
        "for#4": dict(invariant=["result_len == psum(%s, _k_for4)" % _LENS]),
        "for#5": dict(invariant=["j == psum(%s, _k_for5)" % _LENS, "len(this_window) == result_len and result_len == psum(%s, len(multi_window))" % _LENS]),
        "for#6": dict(ghost_init="lemma(psum_bound(%s, _k_for5, len(multi_window)))" % _LENS,
                      invariant=["j == psum(%s, _k_for5) + _k_for6" % _LENS, "len(this_window) == result_len and result_len == psum(%s, len(multi_window))" % _LENS,
                                 "j + len(mset) - _k_for6 <= result_len"]),
    },
)
