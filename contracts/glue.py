"""Contracts on segments of the python glue that establish kernel preconditions (C04, C10)."""
B = "vectorizers/base_cooccurrence_vectorizer.py::"
MU = "vectorizers/multi_token_cooccurence_vectorizer.py::"
CONTRACTS = {}
for _f in (B + "BaseCooccurrenceVectorizer._set_coo_sizes", MU + "MultiSetCooccurrenceVectorizer._set_coo_sizes"):
    CONTRACTS[_f + "#floor"] = dict(
        # the last statement of _set_coo_sizes: per-thread buffer sizes; the kernels need every size >= 2 (run stack 2*ceil(log2 N) non-empty)
        segment=dict(start="@assign:self._coo_sizes", start_ordinal=3, end=None),   # the third (last) assignment
        locals={"self._coo_sizes": "int[]", "self.n_threads": "int"},
        requires=["self.n_threads >= 1"],
        ensures=["forall(0, len(self._coo_sizes), lambda k: self._coo_sizes[k] >= 2)", "len(self._coo_sizes) == len(old(self._coo_sizes))"],
    )
