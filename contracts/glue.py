"""Contracts on segments of the python glue that establish kernel preconditions (C04, C10)."""
B = "vectorizers/base_cooccurrence_vectorizer.py::"
MU = "vectorizers/multi_token_cooccurence_vectorizer.py::"
CONTRACTS = {}
for _f in (B + "BaseCooccurrenceVectorizer._set_coo_sizes", MU + "MultiSetCooccurrenceVectorizer._set_coo_sizes"):
    CONTRACTS[_f + "#floor"] = dict(
        # the last statement of _set_coo_sizes: per-thread buffer sizes; the kernels need every size >= 2 (run stack 2*ceil(log2 N) non-empty)
        segment=dict(start="@assign:self._coo_sizes", start_ordinal=3, end=None),   # the third (last) assignment
        locals={"self._coo_sizes": "int[]", "self.n_threads": "int"},
        requires=["self.n_threads >= 1"],
        ensures=["forall(0, len(self._coo_sizes), lambda k: self._coo_sizes[k] >= 2)", "len(self._coo_sizes) == len(old(self._coo_sizes))"],
    )


# ---------------------------------------------------------------- document chunking for n_threads (C04): the chunks handed to the worker threads
# partition the corpus - consecutive, starting at document 0, ending at the last document - for every n_threads >= 1 and every corpus
_CHUNKS_POST = [
    "len(result) >= 1",
    "result[0][0] == 0 and result[len(result) - 1][1] == len(data)",
    "forall(0, len(result) - 1, lambda k: result[k][1] == result[k + 1][0])",
    "forall(0, len(result), lambda k: result[k][0] <= result[k][1])",
]
_CHUNKS_INV = [
    "len(cumulative_sizes) == len(data)",
    "0 <= last_chunk_end and last_chunk_end <= chunk_index",
    "implies(len(chunks) == 0, last_chunk_end == 0)",
    "implies(len(chunks) > 0, chunks[0][0] == 0 and chunks[len(chunks) - 1][1] == last_chunk_end)",
    "forall(0, len(chunks) - 1, lambda k: chunks[k][1] == chunks[k + 1][0])",
    "forall(0, len(chunks), lambda k: chunks[k][0] <= chunks[k][1])",
]
CONTRACTS[B + "BaseCooccurrenceVectorizer._generate_chunk_boundaries"] = dict(
    params=dict(self="opaque", data="list[int[]]", n_threads="int"),
    local_types=dict(chunks="list[(int,int)]"),
    # (an empty corpus is rejected earlier: cumulative_sizes[-1] needs at least one document)
    requires=["n_threads >= 1", "len(data) >= 1"],
    returns="list[(int,int)]",
    ensures=_CHUNKS_POST,
    loops={"for#1": dict(invariant=_CHUNKS_INV)},
)
# the multiset variant differs only in how a document's size is computed (a nested comprehension outside the subset): everything
# after that first statement is verified as a segment, for arbitrary sizes
CONTRACTS[MU + "MultiSetCooccurrenceVectorizer._generate_chunk_boundaries#partition"] = dict(
    segment=dict(start="@assign:cumulative_sizes", start_ordinal=1, end="chunks.append((last_chunk_end, len(data)))", end_inclusive=True),
    locals=dict(token_list_sizes="int[]", data="list[int[]]", n_threads="int"),
    local_types=dict(chunks="list[(int,int)]"),
    requires=["n_threads >= 1", "len(data) >= 1", "len(token_list_sizes) == len(data)"],
    ensures=[e.replace("result", "chunks") for e in _CHUNKS_POST],
    loops={"for#1": dict(invariant=_CHUNKS_INV)},
)
