#!/bin/sh
# setup_cmd: tool sanity only; nothing is built or fetched.
set -e
cd "$(dirname "$0")"
python3-vt -c "import z3; assert z3.get_version_string().startswith('5.'), z3.get_version_string()"
test -x /usr/bin/cvc5 && test -x /usr/bin/z3
NUMBA_DISABLE_JIT=1 /venv/bin/python -W ignore -c "import vectorizers, numpy, scipy"
mkdir -p evidence/replays
echo "setup ok"
