"""Statement semantics: path-enumerating symbolic execution with loop cuts."""
import ast
import z3
from .values import *  # noqa
from .expr import zint, ite, zmax, zmin, is_true, is_false, py_floordiv
from . import solve

MAX_PATHS = 6000

MUTATORS = {"append", "extend", "pop", "add", "sort", "update", "clear", "remove", "insert", "fill", "resize",
            "eliminate_zeros", "sort_indices", "sum_duplicates"}


def assigned_names(stmts):
    """Names (re)bound anywhere in the statements."""
    out = set()

    def tgt(t):
        if isinstance(t, ast.Name):
            out.add(t.id)
        elif isinstance(t, (ast.Tuple, ast.List)):
            for e in t.elts:
                tgt(e)
        elif isinstance(t, ast.Starred):
            tgt(t.value)

    for s in stmts:
        for n in ast.walk(s):
            if isinstance(n, ast.Assign):
                for t in n.targets:
                    tgt(t)
            elif isinstance(n, (ast.AugAssign, ast.AnnAssign)):
                tgt(n.target)
            elif isinstance(n, ast.For):
                tgt(n.target)
            elif isinstance(n, ast.NamedExpr):
                tgt(n.target)
    return out


def root_name(node):
    while isinstance(node, (ast.Subscript, ast.Attribute)):
        node = node.value
    return node.id if isinstance(node, ast.Name) else None


class StmtMixin:
    # ---------------------------------------------------------------- blocks
    def exec_block(self, stmts, st):
        """Returns list of (kind, state, value); kind in normal/break/continue/return/raise."""
        live = [st]
        done = []
        for s in stmts:
            nxt = []
            for cur in live:
                for kind, s2, v in self.exec_stmt(s, cur):
                    if kind == "normal":
                        g = self.ghost_after_map.get(id(s))
                        if g is not None:
                            self.run_ghost(g, s2)
                        nxt.append(s2)
                    else:
                        done.append((kind, s2, v))
            live = nxt
            self.npaths = max(self.npaths, len(live) + len(done))
            if len(live) + len(done) > MAX_PATHS:
                raise VCError("path explosion (> %d paths) in %s near line %d" % (MAX_PATHS, self.fname, s.lineno))
            if not live:
                break
        return [("normal", s2, None) for s2 in live] + done

    def exec_stmt(self, s, st):
        self.cur_line = getattr(s, "lineno", self.cur_line)
        m = getattr(self, "s_" + type(s).__name__, None)
        if m is None:
            raise VCError("unsupported statement %s at line %d" % (type(s).__name__, s.lineno))
        st.exc = []
        pre = st.fork() if st.in_try else None
        outs = m(s, st)
        if pre is not None and st.exc:
            # the statement may raise a caught exception: fork to the handler states
            conds = list(st.exc)
            st.exc = []
            res = []
            for kind, s2, v in outs:
                for c, _ in conds:
                    s2.assume(z3.Not(c))
                res.append((kind, s2, v))
            for c, exc in conds:
                h = pre.fork()
                h.assume(c)
                res.append(("raise", h, exc))
            return res
        return outs

    def s_Pass(self, s, st):
        return [("normal", st, None)]

    def s_Expr(self, s, st):
        if isinstance(s.value, ast.Constant):
            return [("normal", st, None)]
        if isinstance(s.value, ast.Call):
            return [("normal", s2, None) for s2, _ in self.call_stmt(s.value, st)]
        self.eval(s.value, st)
        return [("normal", st, None)]

    def s_Assert(self, s, st):
        c = truth(self.eval(s.test, st))
        saved, self.spec = self.spec, False  # asserts in ghost code are real obligations
        try:
            self.oblige(st, "assert", s, c, "assert: " + ast.unparse(s.test)[:120])
        finally:
            self.spec = saved
        return [("normal", st, None)]

    def s_Return(self, s, st):
        if s.value is None:
            return [("return", st, NONE)]
        if isinstance(s.value, ast.Call):
            return [("return", s2, v) for s2, v in self.call_stmt(s.value, st)]
        return [("return", st, self.eval(s.value, st))]

    def s_Break(self, s, st):
        return [("break", st, None)]

    def s_Continue(self, s, st):
        return [("continue", st, None)]

    def s_Raise(self, s, st):
        name = "Exception"
        if s.exc is not None:
            e = s.exc.func if isinstance(s.exc, ast.Call) else s.exc
            if isinstance(e, ast.Name):
                name = e.id
        return [("raise", st, name)]

    def s_Delete(self, s, st):
        for t in s.targets:
            if isinstance(t, ast.Subscript):
                base = self.eval(t.value, st)
                o = st.obj(base) if isinstance(base, Ref) else None
                if isinstance(o, HDict):
                    kt = self.key_term(st, o, self.eval(t.slice, st), s)
                    self.oblige(st, "key", s, z3.Select(o.dom, kt), "del of a possibly absent dictionary key")
                    mo = st.mut(base)
                    mo.size = mo.size - 1
                    mo.dom = z3.Store(mo.dom, kt, z3.BoolVal(False))
                    continue
            raise VCError("del form at line %d" % s.lineno)
        return [("normal", st, None)]

    def s_Global(self, s, st):
        return [("normal", st, None)]

    def s_Assign(self, s, st):
        lt = (self.contract.get("local_types") or {})
        if len(s.targets) == 1 and isinstance(s.targets[0], ast.Name) and s.targets[0].id in lt and \
                ((isinstance(s.value, (ast.Dict, ast.List)) and not (getattr(s.value, "keys", None) or getattr(s.value, "elts", None))) or
                 (isinstance(s.value, ast.Call) and isinstance(s.value.func, ast.Name) and s.value.func.id == "List" and not s.value.args)):
            # empty literal whose element types come from the contract (python is untyped here)
            v = self.make_value(lt[s.targets[0].id], st, "loc_" + s.targets[0].id)
            o = st.mut(v)
            if isinstance(o, HDict):
                o.dom, o.size = z3.K(o.ksort, z3.BoolVal(False)), zint(0)
            else:
                o.n = zint(0)
            st.bind(s.targets[0].id, v)
            return [("normal", st, None)]
        if isinstance(s.value, ast.Call):
            outs = self.call_stmt(s.value, st)
        else:
            outs = [(st, self.eval(s.value, st))]
        res = []
        for s2, v in outs:
            for t in s.targets:
                self.store(t, v, s2, s)
            res.append(("normal", s2, None))
        return res

    def s_AnnAssign(self, s, st):
        if s.value is None:
            return [("normal", st, None)]
        v = self.eval(s.value, st)
        self.store(s.target, v, st, s)
        return [("normal", st, None)]

    def s_AugAssign(self, s, st):
        cur = self.eval(self.as_load(s.target), st)
        if isinstance(s.value, ast.Call):
            outs = self.call_stmt(s.value, st)
        else:
            outs = [(st, self.eval(s.value, st))]
        res = []
        for s2, rhs in outs:
            if isinstance(s.target, ast.Name) and isinstance(cur, (Ref, View)) and self.is_arr1(s2, cur):
                # numpy in-place update of the same buffer
                o = s2.obj(cur.ref)
                if getattr(o, "is_list", False) and isinstance(s.op, ast.Add):
                    self.list_extend(s2, cur, rhs, s)
                else:
                    new = self.binop(s.op, cur, rhs, s, s2)
                    if isinstance(cur, Ref) and isinstance(new, Ref) and isinstance(s2.obj(new), HArr) and s2.obj(new).kind == o.kind:
                        # in-place elementwise update of a whole array: the buffer now holds the result's contents (same length:
                        # the elementwise operation already required equal lengths); no extra quantified copy
                        mo = s2.mut(cur.ref)
                        mo.a = s2.obj(new).a
                        self.write_back(s2, cur.ref)
                    else:
                        self.copy_into(s2, cur, new, s)
            else:
                new = self.binop(s.op, cur, rhs, s, s2)
                self.store(s.target, new, s2, s)
            res.append(("normal", s2, None))
        return res

    def as_load(self, t):
        t2 = ast.copy_location(type(t)(**{f: getattr(t, f) for f in t._fields}), t)
        t2.ctx = ast.Load()
        return t2

    def copy_into(self, st, dst, src, node):
        """dst[:] = src for 1-D array values (dst a Ref or View)."""
        n = self.length_of(st, dst)
        self.assign_range(st, dst, zint(0), n, src, node)

    def assign_range(self, st, dst, start, ln, src, node):
        """dst[start:start+ln] = src  (src scalar or 1-D value); start/ln already clamped."""
        base = st.obj(dst.ref)
        bstart, bstep = (dst.start, dst.step) if isinstance(dst, View) else (zint(0), zint(1))
        if not isinstance(src, Sc):
            m = self.length_of(st, src)
            # numpy broadcasting: lengths must agree (length-1 sources broadcast)
            self.oblige(st, "shape", node, z3.Or(m == ln, m == 1), "slice assignment: source length differs from slice length")
        kind = base.kind
        old_a = base.a
        new_a = fresh("sl", old_a.sort())
        k = fresh("k", INT)
        if not is_true(bstep == 1):
            raise VCError("slice assignment through strided view at line %d" % node.lineno)
        lo = z3.simplify(bstart + start)
        rel = k - lo
        if isinstance(src, Sc):
            sv = to_real(src) if kind == "real" else (src.t if src.kind == kind else to_int(src) if kind == "int" else src.t)
        else:
            sk = self.elem_kind(st, src)
            e = self.read_elem(st, src, ite(self.length_of(st, src) == 1, zint(0), rel))
            sv = z3.ToReal(e) if (kind == "real" and sk == "int") else (z3.ToInt(e) if (kind == "int" and sk == "real") else e)
        st.assume(qall([k], z3.Select(new_a, k) == ite(z3.And(k >= lo, k < lo + ln), sv, z3.Select(old_a, k)),
                            pats=[z3.Select(new_a, k)]))
        st.mut(dst.ref).a = new_a
        self.write_back(st, dst.ref)

    def write_back(self, st, ref):
        o = st.obj(ref)
        org = getattr(o, "origin", None)
        if org is None:
            return
        lref, idx = org[0], org[1]
        if lref not in st.heap:
            return
        lo = st.mut(lref)
        if isinstance(lo, HListStruct):
            j = org[2]
            lo.arrs = list(lo.arrs)
            lo.lens = list(lo.lens)
            lo.arrs[j] = z3.Store(lo.arrs[j], idx, o.a)
            lo.lens[j] = z3.Store(lo.lens[j], idx, o.n)
        elif isinstance(lo, HListArr):
            lo.a = z3.Store(lo.a, idx, o.a)
        elif isinstance(lo, HArr2):
            lo.a = z3.Store(lo.a, idx, o.a)

    def list_extend(self, st, dst, rhs, node):
        o = st.mut(dst.ref)
        m = self.length_of(st, rhs)
        new_a = fresh("ext", o.a.sort())
        k = fresh("k", INT)
        st.assume(qall([k], z3.Select(new_a, k) == ite(z3.And(k >= o.n, k < o.n + m), self.read_elem(st, rhs, k - o.n), z3.Select(o.a, k)),
                            pats=[z3.Select(new_a, k)]))
        o.a = new_a
        o.n = o.n + m

    # ---------------------------------------------------------------- stores
    def conv(self, v, kind):
        if kind == "real":
            return to_real(v)
        if kind == "int":
            return z3.ToInt(v.t) if v.kind == "real" else to_int(v)
        if kind == "bool":
            return truth(v)
        raise VCError("conv")

    def store(self, t, v, st, node):
        if isinstance(t, ast.Name):
            st.bind(t.id, v)
            return
        if isinstance(t, (ast.Tuple, ast.List)):
            if not isinstance(v, Tup) or len(v.items) != len(t.elts):
                raise VCError("cannot unpack %r at line %d" % (v, node.lineno))
            for e, x in zip(t.elts, v.items):
                self.store(e, x, st, node)
            return
        if isinstance(t, ast.Subscript):
            base = self.eval(t.value, st)
            self.store_sub(base, t.slice, v, st, t)
            return
        if isinstance(t, ast.Attribute):
            self.store_attr(t, v, st, node)
            return
        raise VCError("assignment target %s at line %d" % (type(t).__name__, node.lineno))

    def store_attr(self, t, v, st, node):
        if isinstance(t.value, ast.Name) and t.value.id == "self":
            st.bind("self." + t.attr, v)
            return
        raise VCError("attribute assignment at line %d" % node.lineno)

    def store_sub(self, base, sl, v, st, node):
        if isinstance(base, (Ref, View)):
            o = st.obj(base.ref)
            if isinstance(o, HArr):
                n = self.length_of(st, base)
                if isinstance(sl, ast.Slice):
                    lo, hi, step = self.slice_parts(sl, st)
                    if step not in (None, 1):
                        raise VCError("strided slice assignment at line %d" % node.lineno)
                    s0, ln = self.clamp_slice(st, lo, hi, n)
                    self.assign_range(st, base, s0, ln, v, node)
                    return
                idxv = self.eval(sl, st)
                if isinstance(idxv, Sc):
                    idx = to_int(idxv) if idxv.kind != "real" else z3.ToInt(idxv.t)
                    idx = self.norm_index(st, node, idx, n, "array store index")
                    if not isinstance(v, Sc):
                        raise VCError("storing %r into array at line %d" % (v, node.lineno))
                    pos = idx if isinstance(base, Ref) else base.start + idx * base.step
                    mo = st.mut(base.ref)
                    mo.a = z3.Store(mo.a, pos, self.conv(v, o.kind))
                    self.write_back(st, base.ref)
                    return
                if self.is_arr1(st, idxv) and self.elem_kind(st, idxv) == "bool":
                    m = self.length_of(st, idxv)
                    self.oblige(st, "index", node, m == n, "boolean mask length differs from array length")
                    if not isinstance(v, Sc) or isinstance(base, View):
                        raise VCError("mask assignment form at line %d" % node.lineno)
                    new_a = fresh("mska", o.a.sort())
                    k = fresh("k", INT)
                    st.assume(qall([k], z3.Select(new_a, k) == ite(z3.And(k >= 0, k < n, self.read_elem(st, idxv, k)),
                                                                     self.conv(v, o.kind), z3.Select(o.a, k)), pats=[z3.Select(new_a, k)]))
                    st.mut(base.ref).a = new_a
                    return
                if self.is_arr1(st, idxv):
                    # integer index-array store: a[idx] = scalar
                    m = self.length_of(st, idxv)
                    k = fresh("k", INT)
                    it = self.read_elem(st, idxv, k)
                    self.oblige(st, "index", node, qall([k], z3.Implies(z3.And(k >= 0, k < m), z3.And(it >= -n, it < n))),
                                "index array entry out of range (store)")
                    mo = st.mut(base.ref)
                    mo.a = fresh("fst", o.a.sort())  # contents at the indexed cells: havoc (sound over-approximation)
                    return
            if isinstance(o, HArr2):
                if isinstance(sl, ast.Tuple) and len(sl.elts) == 2:
                    i = self.norm_index(st, node, self.eval_int(sl.elts[0], st), o.n, "row store index")
                    j = self.norm_index(st, node, self.eval_int(sl.elts[1], st), o.m, "column store index")
                    mo = st.mut(base.ref)
                    mo.a = z3.Store(mo.a, i, z3.Store(z3.Select(mo.a, i), j, self.conv(v, o.kind)))
                    return
                if not isinstance(sl, (ast.Slice, ast.Tuple)):
                    i = self.norm_index(st, node, self.eval_int(sl, st), o.n, "row store index")
                    if isinstance(v, Sc):
                        row = z3.K(INT, self.conv(v, o.kind))
                    else:
                        self.oblige(st, "shape", node, self.length_of(st, v) == o.m, "row assignment: length differs from number of columns")
                        row = self.as_z3_array(st, v)
                    mo = st.mut(base.ref)
                    mo.a = z3.Store(mo.a, i, row)
                    return
            if isinstance(o, (HListArr, HListStr)) and not isinstance(sl, ast.Slice):
                i = self.norm_index(st, node, self.eval_int(sl, st), o.n, "list store index")
                mo = st.mut(base.ref)
                mo.a = z3.Store(mo.a, i, self.as_z3_array(st, v))
                mo.lens = z3.Store(mo.lens, i, self.length_of(st, v))
                return
            if isinstance(o, HListTup) and not isinstance(sl, ast.Slice):
                i = self.norm_index(st, node, self.eval_int(sl, st), o.n, "list store index")
                mo = st.mut(base.ref)
                mo.cols = [z3.Store(c, i, x.t) for c, x in zip(mo.cols, v.items)]
                return
            if isinstance(o, HListStruct) and not isinstance(sl, ast.Slice) and isinstance(v, Tup):
                i = self.norm_index(st, node, self.eval_int(sl, st), o.n, "list store index")
                mo = st.mut(base.ref)
                mo.arrs = [z3.Store(a, i, self.as_z3_array(st, x)) for a, x in zip(mo.arrs, v.items)]
                mo.lens = [z3.Store(ln, i, self.length_of(st, x)) for ln, x in zip(mo.lens, v.items)]
                return
            if isinstance(o, HDict):
                kt = self.key_term(st, o, self.eval(sl, st), node)
                mo = st.mut(base.ref)
                mo.size = mo.size + ite(z3.Select(mo.dom, kt), zint(0), zint(1))
                mo.dom = z3.Store(mo.dom, kt, z3.BoolVal(True))
                mo.val = z3.Store(mo.val, kt, self.conv(v, o.vkind))
                return
        raise VCError("subscript store into %r at line %d" % (base, node.lineno))

    # ---------------------------------------------------------------- control
    def s_If(self, s, st):
        c = truth(self.eval(s.test, st))
        res = []
        if is_true(c):
            return self.exec_block(s.body, st)
        if is_false(c):
            return self.exec_block(s.orelse, st) if s.orelse else [("normal", st, None)]
        st_t, st_f = st, st.fork()
        st_t.assume(c)
        st_f.assume(z3.Not(c))
        if solve.feasible(st_t.full_pc()):
            st_t.trace.append("L%d:if-true" % s.lineno)
            res += self.exec_block(s.body, st_t)
        if solve.feasible(st_f.full_pc()):
            st_f.trace.append("L%d:if-false" % s.lineno)
            res += self.exec_block(s.orelse, st_f) if s.orelse else [("normal", st_f, None)]
        return res

    def s_Try(self, s, st):
        caught = set()
        for h in s.handlers:
            if h.type is None:
                caught.add("*")
            elif isinstance(h.type, ast.Name):
                caught.add(h.type.id)
            elif isinstance(h.type, ast.Tuple):
                caught |= {e.id for e in h.type.elts if isinstance(e, ast.Name)}
        if s.finalbody or s.orelse:
            raise VCError("try/finally/else at line %d" % s.lineno)
        st.in_try.append(caught)
        outs = self.exec_block(s.body, st)
        res = []
        for kind, s2, v in outs:
            if s2.in_try and s2.in_try[-1] is caught:
                s2.in_try = s2.in_try[:-1]
            else:
                s2.in_try = [c for c in s2.in_try if c is not caught]
            if kind == "raise" and (v in caught or "*" in caught):
                for h in s.handlers:
                    names = {"*"} if h.type is None else ({h.type.id} if isinstance(h.type, ast.Name) else {e.id for e in h.type.elts})
                    if v in names or "*" in names:
                        res += self.exec_block(h.body, s2)
                        break
            else:
                res.append((kind, s2, v))
        return res

    # ---------------------------------------------------------------- loops
    def loop_key(self, s):
        return self.loop_keys[id(s)]

    def loop_contract(self, s):
        loops = self.contract.get("loops") or {}
        if "@segment" in loops and id(s) == getattr(self, "segment_loop_id", None):
            return loops["@segment"]
        return loops.get(self.loop_key(s), {})

    def mutated_roots(self, stmts, st, loop=None):
        """Names whose object may be mutated by the statements -> set of names, or (name, attr)
        when only one field of a named tuple is written (coo.row[...] = ...).  An element taken out of a container
        (`for x in L`, `x = L[i]`) aliases it: mutating x mutates L."""
        out = set()
        aliases = {}
        deep_names = set()
        array_alias = set()
        inplace_names = set()   # `x += ...` on a bare name: a rebinding for scalars - not propagated to the container x came from

        def note_alias(tgt, src):
            if isinstance(src, ast.Call) and isinstance(src.func, ast.Name) and src.func.id in ("enumerate", "reversed", "zip", "list", "sorted"):
                for a in src.args:
                    note_alias(tgt, a)
                return
            while isinstance(src, ast.Subscript):
                src = src.value
            if isinstance(src, ast.Name):
                # do the container's elements live on the heap (rows of a 2-D array, arrays in a list)?  then `x /= ...` on an element
                # taken out of it is a numpy in-place update of the container, not the rebinding of a scalar
                sv = st.vars.get(src.id, (None, False))[0]
                so = st.heap.get(sv.ref) if isinstance(sv, (Ref, View)) else None
                arrayish = isinstance(so, (HArr2, HListArr, HListArr2, HListStruct))
                for nm in assigned_names([ast.Assign(targets=[tgt], value=ast.Constant(value=0))]):
                    if nm != src.id:
                        aliases.setdefault(nm, set()).add(src.id)
                        if arrayish:
                            array_alias.add(nm)

        for s in list(stmts) + ([loop] if loop is not None else []):
            for n in ([s] if s is loop else ast.walk(s)):
                if isinstance(n, ast.For):
                    note_alias(n.target, n.iter)
                elif isinstance(n, ast.Assign) and len(n.targets) == 1 and isinstance(n.targets[0], ast.Name) and isinstance(n.value, ast.Subscript) \
                        and not isinstance(n.value.slice, ast.Slice):
                    note_alias(n.targets[0], n.value)

        def add(e):
            # e: Subscript/Attribute target expression
            node = e
            while isinstance(node, ast.Subscript):
                node = node.value
            if isinstance(node, ast.Attribute) and isinstance(node.value, ast.Name):
                out.add((node.value.id, node.attr))
                return
            r = root_name(e)
            if r:
                out.add(r)
                deep_names.add(r)

        for s in stmts:
            for n in ast.walk(s):
                if isinstance(n, (ast.Assign, ast.AugAssign)):
                    tg = n.targets if isinstance(n, ast.Assign) else [n.target]
                    for t in tg:
                        for e in ([t] if not isinstance(t, ast.Tuple) else t.elts):
                            if isinstance(e, (ast.Subscript, ast.Attribute)):
                                add(e)
                            elif isinstance(e, ast.Name) and isinstance(n, ast.AugAssign):
                                out.add(e.id)  # numpy in-place
                                inplace_names.add(e.id)
                elif isinstance(n, ast.Call):
                    if isinstance(n.func, ast.Attribute) and n.func.attr in MUTATORS:
                        add(n.func.value)
                    else:
                        for argname in self.call_mutates(n, st):
                            out.add(argname)
                            deep_names.add(argname)
        changed = True
        while changed:
            changed = False
            for nm, roots in aliases.items():
                if (nm in out and (nm in deep_names or nm not in inplace_names or nm in array_alias)) or any(isinstance(x, tuple) and x[0] == nm for x in out):
                    if not roots <= out:
                        out |= roots
                        changed = True
        return out

    def havoc_obj(self, st, ref, grow):
        o = st.mut(ref)
        if isinstance(o, HArr):
            o.a = fresh("hv", o.a.sort())
            if o.is_list and grow:
                o.n = fresh("hvn", INT)
                st.assume(o.n >= 0)
            self.write_back(st, ref)   # an element taken out of a list: the list sees the change
        elif isinstance(o, HArr2):
            o.a = fresh("hv2", o.a.sort())
        elif isinstance(o, HListArr):
            o.a = fresh("hvl", o.a.sort())
            o.lens = fresh("hvll", o.lens.sort())
            k = fresh("k", INT)
            st.assume(qall([k], z3.Select(o.lens, k) >= 0, pats=[z3.Select(o.lens, k)]))
            if grow:
                o.n = fresh("hvn", INT)
                st.assume(o.n >= 0)
        elif isinstance(o, HListStruct):
            o.arrs = [fresh("hvsa", a.sort()) for a in o.arrs]
            o.lens = [fresh("hvsl", ln.sort()) for ln in o.lens]
            k = fresh("k", INT)
            for ln in o.lens:
                st.assume(qall([k], z3.Select(ln, k) >= 0, pats=[z3.Select(ln, k)]))
        elif isinstance(o, HListTup):
            o.cols = [fresh("hvc", c.sort()) for c in o.cols]
            if grow:
                o.n = fresh("hvn", INT)
                st.assume(o.n >= 0)
        elif isinstance(o, HDict):
            o.dom = fresh("hvd", o.dom.sort())
            o.val = fresh("hvv", o.val.sort())
            o.size = fresh("hvs", INT)
            st.assume(o.size >= 0)
        elif isinstance(o, HSet):
            o.dom = fresh("hvd", o.dom.sort())
            o.size = fresh("hvs", INT)
            st.assume(o.size >= 0)

    def havoc_val(self, st, v, grow=True):
        """Havoc everything reachable from v (heap contents), return a fresh scalar for scalars."""
        if isinstance(v, Sc):
            return Sc(v.kind, fresh("hv", SORTS[v.kind]))
        if isinstance(v, Tup):
            return Tup([self.havoc_val(st, x, grow) for x in v.items], v.names, v.tname)
        if isinstance(v, Ref):
            self.havoc_obj(st, v.ref, grow)
            return v
        if isinstance(v, View):
            self.havoc_obj(st, v.ref, False)
            return v
        return v   # scalars / matrices / opaque values have no heap contents to havoc

    def fresh_like(self, st, v):
        """A fresh value of the same shape (for rebound variables)."""
        if isinstance(v, Sc):
            return Sc(v.kind, fresh("hv", SORTS[v.kind]))
        if isinstance(v, Tup):
            return Tup([self.fresh_like(st, x) for x in v.items], v.names, v.tname)
        if isinstance(v, View):
            o = st.obj(v.ref)
            r = st.alloc(HArr(o.kind, fresh("hv", o.a.sort()), fresh("hvn", INT)))
            st.assume(st.obj(r).n >= 0)
            return r
        if isinstance(v, Ref):
            o = st.obj(v).clone()
            r = st.alloc(o)
            self.havoc_obj(st, r.ref, True)
            o2 = st.obj(r)
            if isinstance(o2, (HArr, HArr2)) and not getattr(o2, "is_list", False):
                m = st.mut(r)
                m.n = fresh("hvn", INT)
                st.assume(m.n >= 0)
                if isinstance(m, HArr2):
                    m.m = fresh("hvm", INT)
                    st.assume(m.m >= 0)
            return r
        if isinstance(v, Mat):
            return Mat(fresh("hvm", MAT))
        if isinstance(v, (NoneV, StrC, Fn, Opaque, Undef)):
            return v   # immutable / opaque values: a rebinding to another such value cannot be told apart
        raise VCError("cannot havoc a value of kind %s" % type(v).__name__)

    def ghost_in(self, body, lc=None):
        out = []
        for s in body:
            for n in ast.walk(s):
                g = self.ghost_after_map.get(id(n))
                if g is not None:
                    out += ast.parse(g).body
        if lc:
            out += self.ghost_stmts(lc)
        return out

    def do_havoc(self, st, body, extra_names=(), lc=None, loop=None):
        body = list(body) + self.ghost_in(body, lc)
        names = assigned_names(body)
        muts = self.mutated_roots(body, st, loop)
        for nm in muts:
            attr = None
            if isinstance(nm, tuple):
                nm, attr = nm
                if nm in muts:
                    continue
            if nm in st.vars:
                v, d = st.vars[nm]
                if attr is not None and isinstance(v, Tup) and v.names and attr in v.names:
                    v = v.items[v.names.index(attr)]
                self.havoc_val(st, v, True)
        for nm in names | set(extra_names):
            if nm in st.vars:
                v, d = st.vars[nm]
                if isinstance(v, Undef):
                    continue
                st.vars[nm] = (self.fresh_like(st, v), d)
            else:
                st.vars[nm] = (Undef(), False)

    def check_invs(self, st, lc, kind, node, extra=None):
        for i, inv in enumerate(lc.get("invariant", [])):
            t = self.spec_bool(inv, st)
            self.oblige(st, kind, node, t, "loop invariant #%d: %s" % (i + 1, inv))

    def assume_invs(self, st, lc):
        for inv in lc.get("invariant", []):
            st.assume(self.spec_bool(inv, st, assume=True))

    def s_While(self, s, st):
        if s.orelse:
            raise VCError("while/else at line %d" % s.lineno)
        lc = self.loop_contract(s)
        key = self.loop_key(s)
        self.run_ghost(lc.get("ghost_init"), st)
        self.check_invs(st, lc, "inv-init", s)
        head = st
        self.do_havoc(head, s.body, lc.get("ghost_vars", ()), lc)
        self.assume_invs(head, lc)
        self.loops_cut.append(key)
        c = truth(self.eval(s.test, head))
        res = []
        # body path
        sb = head.fork()
        sb.assume(c)
        if solve.feasible(sb.full_pc()):
            self.canary(sb, s, "loop body of %s" % key)
            dec0 = self.spec_int(lc["decreases"], sb) if lc.get("decreases") else None
            for kind, s2, v in self.exec_block(s.body, sb):
                if kind in ("normal", "continue"):
                    self.run_ghost(lc.get("ghost_step"), s2)
                    self.check_invs(s2, lc, "inv-pres", s)
                    if dec0 is not None:
                        d1 = self.spec_int(lc["decreases"], s2)
                        self.oblige(s2, "term", s, z3.And(dec0 >= 0, d1 < dec0), "loop variant decreases: %s" % lc["decreases"])
                elif kind == "break":
                    res.append(("normal", s2, None))
                else:
                    res.append((kind, s2, v))
        # exit path
        se = head
        se.assume(z3.Not(c))
        if solve.feasible(se.full_pc()):
            res.append(("normal", se, None))
        return res

    def iter_desc(self, it, st, s):
        """Describe the iteration space of a for loop.
        Returns dict(n=z3 Int count, bind=callable(state, k) binding targets for iteration k)."""
        tgt = s.target
        if isinstance(it, ast.Call) and isinstance(it.func, ast.Name) and it.func.id == "range" or \
                isinstance(it, ast.Call) and isinstance(it.func, ast.Attribute) and it.func.attr == "prange":
            args = [self.eval_int(a, st) for a in it.args]
            if len(args) == 1:
                lo, hi, step = zint(0), args[0], zint(1)
            elif len(args) == 2:
                lo, hi, step = args[0], args[1], zint(1)
            else:
                lo, hi, step = args
            step_s = z3.simplify(step)
            if is_true(step_s == 1):
                n = zmax(hi - lo, zint(0))
            elif z3.is_int_value(step_s) and step_s.as_long() > 0:
                n = zmax(py_floordiv(hi - lo + step_s - 1, step_s), zint(0))
            elif z3.is_int_value(step_s) and step_s.as_long() < 0:
                n = zmax(py_floordiv(lo - hi + (-step_s) - 1, -step_s), zint(0))
            else:
                self.oblige(st, "div", s, step > 0, "range() step must be positive (symbolic step)")
                n = zmax(py_floordiv(hi - lo + step - 1, step), zint(0))

            def bind(s2, k, last=False):
                self.store(tgt, Sc("int", z3.simplify(lo + k * step)), s2, s)
            return dict(n=z3.simplify(n), bind=bind)
        enum = False
        start = zint(0)
        if isinstance(it, ast.Call) and isinstance(it.func, ast.Name) and it.func.id == "enumerate":
            enum = True
            if len(it.args) > 1:
                start = self.eval_int(it.args[1], st)
            seq = self.eval(it.args[0], st)
        elif isinstance(it, ast.Call) and isinstance(it.func, ast.Attribute) and it.func.attr in ("items", "keys", "values"):
            seq = ("dict", it.func.attr, self.eval(it.func.value, st))
        else:
            seq = self.eval(it, st)
        if isinstance(seq, Ref) and isinstance(st.obj(seq), (HDict, HSet)):
            seq = ("dict", "keys", seq)
        if isinstance(seq, tuple) and seq[0] == "dict":
            _, mode, dref = seq
            d0 = st.obj(dref)
            # iteration order: a ghost injective enumeration of the keys present at loop entry
            keyf = fresh_func("iterkey", INT, d0.ksort)
            n = d0.size
            k1, k2 = fresh("k", INT), fresh("k", INT)
            st.assume(qall([k1], z3.Implies(z3.And(k1 >= 0, k1 < n), z3.Select(d0.dom, keyf(k1))), pats=[keyf(k1)]))
            st.assume(qall([k1, k2], z3.Implies(z3.And(k1 >= 0, k1 < k2, k2 < n), keyf(k1) != keyf(k2)), pats=[z3.MultiPattern(keyf(k1), keyf(k2))]))
            dom0, val0 = d0.dom, getattr(d0, "val", None)

            def bind(s2, k, last=False):
                kt = keyf(k)
                kv = self.key_val(d0, kt)
                if mode == "keys":
                    v = kv
                elif mode == "values":
                    v = Sc(d0.vkind, z3.Select(s2.obj(dref).val, kt))
                else:
                    v = Tup([kv, Sc(d0.vkind, z3.Select(s2.obj(dref).val, kt))])
                if enum:
                    v = Tup([Sc("int", start + k), v])
                self.store(tgt, v, s2, s)
            st.ghost["iterkey_%s" % self.loop_key(s).replace("#", "")] = keyf
            return dict(n=n, bind=bind)
        if isinstance(seq, Tup):
            raise VCError("for over tuple at line %d (unroll not supported here)" % s.lineno)
        n = self.length_of(st, seq)

        def bind(s2, k, last=False):
            el = self.subscript_at(seq, k, s2, s)
            v = Tup([Sc("int", start + k), el]) if enum else el
            self.store(tgt, v, s2, s)
        return dict(n=n, bind=bind)

    def key_val(self, d, kt):
        if d.kdesc == "pair":
            return Tup([Sc("int", PAIR_ACC[0](kt)), Sc("int", PAIR_ACC[1](kt))])
        if d.kdesc == "str":
            return Opaque(("strkey", kt))
        return Sc("int", kt)

    def subscript_at(self, seq, k, st, node):
        """seq[k] for k known in range (no obligation)."""
        saved, self.spec = self.spec, True
        saved_nw, self._no_wrap = getattr(self, "_no_wrap", False), True
        try:
            fake = ast.Name(id="__k", ctx=ast.Load())
            ast.copy_location(fake, node)
            st.vars["__k"] = (Sc("int", k), True)
            v = self.subscript(seq, fake, node, st)
            del st.vars["__k"]
            return v
        finally:
            self.spec = saved
            self._no_wrap = saved_nw

    def s_For(self, s, st):
        if s.orelse:
            raise VCError("for/else at line %d" % s.lineno)
        lc = self.loop_contract(s)
        key = self.loop_key(s)
        d = self.iter_desc(s.iter, st, s)
        n = d["n"]
        tnames = assigned_names([ast.Assign(targets=[s.target], value=ast.Constant(value=0))])
        old_bind = {nm: st.vars.get(nm) for nm in tnames}
        kname = "_k_" + key.replace("#", "")
        # --- establishment with k = 0
        st.ghost[kname] = Sc("int", zint(0))
        init = st.fork()
        d["bind"](init, zint(0))
        self.run_ghost(lc.get("ghost_init"), init)
        st.ghost.update({g: v for g, v in init.ghost.items() if g not in st.ghost})
        self.check_invs(init, lc, "inv-init", s)
        # --- arbitrary iteration
        head = st
        head.ghost.update(init.ghost)
        self.do_havoc(head, s.body, lc.get("ghost_vars", ()), lc, loop=s)
        k = fresh("it", INT)
        head.ghost[kname] = Sc("int", k)
        head.assume(z3.And(k >= 0, k <= n))
        for nm in tnames:  # loop targets are re-bound below
            head.vars.pop(nm, None)
        self.loops_cut.append(key)
        res = []
        sb = head.fork()
        sb.assume(k < n)
        d["bind"](sb, k)
        self.assume_invs(sb, lc)
        if solve.feasible(sb.full_pc()):
            self.canary(sb, s, "loop body of %s" % key)
            for kind, s2, v in self.exec_block(s.body, sb):
                if kind in ("normal", "continue"):
                    s2.ghost[kname] = Sc("int", k + 1)
                    d["bind"](s2, k + 1)
                    self.run_ghost(lc.get("ghost_step"), s2)
                    self.check_invs(s2, lc, "inv-pres", s)
                elif kind == "break":
                    res.append(("normal", s2, None))
                else:
                    res.append((kind, s2, v))
        se = head
        se.assume(k == n)
        d["bind"](se, n)
        self.assume_invs(se, lc)
        # python leaves the targets bound to the *last* element, or untouched if no iteration ran
        for nm in tnames:
            ob = old_bind.get(nm)
            last = se.fork()
            d["bind"](last, n - 1)
            lv = last.vars[nm][0]
            if ob is None or isinstance(ob[0], Undef):
                se.vars[nm] = (lv, n > 0)
            else:
                ov, od = ob
                try:
                    mv = self.merge_vals(n > 0, lv, ov, s)
                    dd = True if od is True else z3.Or(n > 0, od)
                    se.vars[nm] = (mv, dd)
                except VCError:
                    se.vars[nm] = (lv, n > 0)
        if solve.feasible(se.full_pc()):
            res.append(("normal", se, None))
        return res

    def canary(self, st, node, what, full=True):
        """Vacuity guard: the point must be reachable (pc satisfiable).  full=False: judged on the quantifier-free part only
        (cheap; used after every call by contract, where the typical mistake is a ground contradiction in the assumed contract)."""
        self.canaries.append((what, getattr(node, "lineno", 0), solve.feasible(st.full_pc(), 200, full=full)))
