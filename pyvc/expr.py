"""Expression semantics (shared by code and contract expressions)."""
import ast
import z3
from .values import *  # noqa
from .state import State


def zint(x):
    return z3.IntVal(x)


def ite(c, a, b):
    return z3.If(c, a, b)


def zmin(a, b):
    return z3.If(a <= b, a, b)


def zmax(a, b):
    return z3.If(a >= b, a, b)


def py_floordiv(a, b):
    # z3 Int division is euclidean; python's floors
    return z3.If(b > 0, a / b, (-a) / (-b))


def py_mod(a, b):
    return a - b * py_floordiv(a, b)


def is_true(c):
    return z3.is_true(z3.simplify(c))


def is_false(c):
    return z3.is_false(z3.simplify(c))


class ExprMixin:
    # ------------------------------------------------------------ utilities
    def scalar_const(self, v):
        if isinstance(v, bool):
            return Sc("bool", z3.BoolVal(v))
        if isinstance(v, int):
            return Sc("int", zint(v))
        if isinstance(v, float):
            return Sc("real", z3.RealVal(repr(v)) if v == v and abs(v) != float("inf") else fresh("fconst", REAL))
        raise VCError("constant %r" % (v,))

    def length_of(self, st, v):
        """z3 Int length of a sequence-like value."""
        if isinstance(v, View):
            return v.n
        if isinstance(v, Ref):
            o = st.obj(v)
            if isinstance(o, (HArr, HArr2, HListArr, HListTup, HStr, HListStr, HListStruct, HListArr2)):
                return o.n
            if isinstance(o, (HDict, HSet)):
                return o.size
        if isinstance(v, Tup):
            return zint(len(v.items))
        if isinstance(v, StrC):
            return zint(len(v.s))
        raise VCError("len() of %r" % (v,))

    def elem_kind(self, st, v):
        if isinstance(v, View):
            return st.obj(v.ref).kind
        return st.obj(v).kind

    def read_elem(self, st, v, k):
        """Element k (z3 Int, assumed in range) of a 1-D array-like value, as z3 term."""
        if isinstance(v, View):
            o = st.obj(v.ref)
            return z3.Select(o.a, v.start + k * v.step)
        o = st.obj(v)
        return z3.Select(o.a, k)

    def is_arr1(self, st, v):
        if isinstance(v, View):
            return isinstance(st.obj(v.ref), (HArr, HStr))
        return isinstance(v, Ref) and isinstance(st.obj(v), (HArr, HStr))

    def norm_index(self, st, node, idx, n, what):
        """Python index semantics: obligation -n <= idx < n; returns wrapped index."""
        if not self.spec:
            self.oblige(st, "index", node, z3.And(idx >= -n, idx < n), what)
        s = z3.simplify(idx >= 0)
        if z3.is_true(s) or getattr(self, "_no_wrap", False):
            return idx
        if self.spec:
            # contract expressions index from the front; python's negative wrap-around is not part of the contract language
            return idx
        # keep the index term clean (no if-then-else) whenever the path condition already implies idx >= 0: quantifier
        # instantiation works on clean terms, and almost every index is a loop counter
        from . import solve as _solve
        if _solve.quick_valid(st.full_pc(), idx >= 0):
            return idx
        return ite(idx >= 0, idx, idx + n)

    def clamp_slice(self, st, lo, hi, n):
        """start, stop of a step-1 slice (None for missing) -> (start, length)."""
        if lo is None:
            lo_t = zint(0)
        else:
            lo_t = ite(lo < 0, zmax(lo + n, zint(0)), zmin(lo, n))
        if hi is None:
            hi_t = n
        else:
            hi_t = ite(hi < 0, zmax(hi + n, zint(0)), zmin(hi, n))
        ln = zmax(hi_t - lo_t, zint(0))
        return z3.simplify(lo_t), z3.simplify(ln)

    # ------------------------------------------------------------ eval
    def eval(self, node, st):
        m = getattr(self, "e_" + type(node).__name__, None)
        if m is None:
            raise VCError("unsupported expression %s at line %s" % (type(node).__name__, getattr(node, "lineno", "?")))
        return m(node, st)

    def eval_int(self, node, st):
        v = self.eval(node, st)
        if isinstance(v, Sc) and v.kind in ("int", "bool"):
            return to_int(v)
        if isinstance(v, Sc) and v.kind == "real":
            # numpy/numba index with a float that is integral: treat via ToInt
            return z3.ToInt(v.t)
        raise VCError("expected int at line %s, got %r" % (getattr(node, "lineno", "?"), v))

    def e_Constant(self, node, st):
        if node.value is None:
            return NONE
        if isinstance(node.value, str):
            return StrC(node.value)
        return self.scalar_const(node.value)

    def e_Name(self, node, st):
        name = node.id
        if name in st.vars:
            v, d = st.vars[name]
            if d is not True:
                if not self.spec:
                    self.oblige(st, "defined", node, d if d is not False else z3.BoolVal(False), "variable '%s' may be unbound" % name)
                if isinstance(v, Undef):
                    raise VCError("read of certainly-unbound variable %s at line %d" % (name, node.lineno))
                st.vars[name] = (v, True)
            return v
        if self.spec and name in st.ghost:
            return st.ghost[name]
        if self.spec and name == "result":
            return st.ghost["result"]
        return self.global_name(name, node, st)

    def e_Tuple(self, node, st):
        items = []
        for e in node.elts:
            if isinstance(e, ast.Starred):
                v = self.eval(e.value, st)
                if isinstance(v, Tup):
                    items.extend(v.items)
                else:
                    raise VCError("starred non-tuple at line %d" % node.lineno)
            else:
                items.append(self.eval(e, st))
        return Tup(items)

    def e_List(self, node, st):
        vals = [self.eval(e, st) for e in node.elts]
        return self.list_from_vals(st, vals)

    def list_from_vals(self, st, vals):
        if not vals:
            return st.alloc(HArr("int", fresh("lst", arr_sort("int")), zint(0), is_list=True))
        if all(isinstance(v, Sc) for v in vals):
            kind = "real" if any(v.kind == "real" for v in vals) else vals[0].kind
            a = fresh("lst", arr_sort(kind))
            for i, v in enumerate(vals):
                t = to_real(v) if kind == "real" else v.t
                a = z3.Store(a, i, t)
            return st.alloc(HArr(kind, a, zint(len(vals)), is_list=True))
        if all(isinstance(v, Tup) and all(isinstance(x, Sc) for x in v.items) for v in vals):
            ar = len(vals[0].items)
            kinds = [x.kind for x in vals[0].items]
            cols = [fresh("ltc", arr_sort(k)) for k in kinds]
            for i, v in enumerate(vals):
                for j in range(ar):
                    cols[j] = z3.Store(cols[j], i, v.items[j].t)
            return st.alloc(HListTup(kinds, cols, zint(len(vals))))
        if all(self.is_arr1(st, v) for v in vals):
            kind = self.elem_kind(st, vals[0])
            a = fresh("la", z3.ArraySort(INT, arr_sort(kind)))
            lens = fresh("lal", z3.ArraySort(INT, INT))
            for i, v in enumerate(vals):
                a = z3.Store(a, i, self.as_z3_array(st, v))
                lens = z3.Store(lens, i, self.length_of(st, v))
            return st.alloc(HListArr(kind, a, lens, zint(len(vals))))
        # heterogeneous python list literal: keep as a tuple-like value
        return Tup(vals)

    def e_ListComp(self, node, st):
        """[elt for target in iter (if cond)] with one generator.  Symbolic length: the element is evaluated once for an
        arbitrary index k; constants created on the way are replaced by skolem functions of k, so the facts hold for every k."""
        from . import values as VV
        if len(node.generators) != 1 or node.generators[0].is_async:
            raise VCError("comprehension with several generators at line %d" % node.lineno)
        gen = node.generators[0]
        fake = ast.For(target=gen.target, iter=gen.iter, body=[], orelse=[])
        ast.copy_location(fake, node)
        d = self.iter_desc(gen.iter, st, fake)
        n = z3.simplify(d["n"])
        if z3.is_int_value(n) and n.as_long() <= 8 and not gen.ifs:
            vals = []
            for i in range(n.as_long()):
                sub = st.fork()
                d["bind"](sub, zint(i))
                npc = len(sub.pc)
                v = self.eval(node.elt, sub)
                for r, o in sub.heap.items():
                    st.heap.setdefault(r, o)
                st.pc.extend(sub.pc[npc:] if len(sub.pc) >= npc else [])
                vals.append(v)
            return self.list_from_vals(st, vals)
        if any(g.func_fresh for g in [self] if hasattr(g, "func_fresh")):
            pass
        k = fresh("ck", INT)
        sub = st.fork()
        rng = z3.And(k >= 0, k < n)
        sub.assume(rng)
        old_log = VV.start_fresh_log()
        n_uf = len(self.ufuncs)
        npc = len(sub.pc)
        try:
            d["bind"](sub, k)
            conds = [truth(self.eval(c, sub)) for c in gen.ifs]
            for c in conds:
                sub.assume(c)
            elt = self.eval(node.elt, sub)
        finally:
            log = VV.stop_fresh_log(old_log)
        facts = sub.pc[npc:]
        if any(c is None for c in log):
            # a fresh witness function was created inside: the facts cannot be generalised over k soundly; keep shapes only
            log = [c for c in log if c is not None]
            facts = []
            if isinstance(elt, Sc):
                r = new_arr(elt.kind, "comp", n=n, is_list=True)
                st.assume(n >= 0)
                return st.alloc(r)
            if isinstance(elt, (Ref, View)) and self.is_arr1(sub, elt):
                kind = self.elem_kind(sub, elt)
                lens = fresh("compl", z3.ArraySort(INT, INT))
                kk = fresh("k", INT)
                st.assume(qall([kk], z3.Select(lens, kk) >= 0, pats=[z3.Select(lens, kk)]))
                return st.alloc(HListArr(kind, fresh("compa", z3.ArraySort(INT, arr_sort(kind))), lens, n))
            raise VCError("comprehension element with witness functions at line %d" % node.lineno)
        # skolemise: every constant created while evaluating depends on k
        subst = []
        for c in log:
            if c.eq(k):
                continue
            f = z3.Function("sk_" + c.decl().name(), INT, c.sort())
            subst.append((c, f(k)))

        def S(t):
            return z3.substitute(t, *subst) if subst else t
        for r, o in sub.heap.items():
            st.heap.setdefault(r, o)
        cond_all = z3.And(rng, *[S(c) for c in conds]) if conds else rng
        if gen.ifs:
            # filtered: only the shape is kept (length between 0 and n, elements satisfy nothing in particular)
            if isinstance(elt, Sc):
                r = new_arr(elt.kind, "comp", is_list=True)
                st.assume(z3.And(r.n >= 0, r.n <= n))
                return st.alloc(r)
            raise VCError("filtered comprehension of non-scalars at line %d" % node.lineno)
        for f_ in facts:
            st.assume(qall([k], z3.Implies(rng, S(f_))))
        if isinstance(elt, Sc):
            et = S(elt.t)   # not simplified: Select(Lambda..., k) must stay recognisable as "element k of that array"
            if z3.is_select(et) and et.arg(1).eq(k) and not self.mentions(et.arg(0), k):
                # [a[k] for k in range(n)]: the list is the prefix of a itself (named, so that later terms stay small)
                st.assume(n >= 0)
                base = et.arg(0)
                if not z3.is_const(base):
                    key = ("named", base.get_id())
                    if key not in self.ufuncs:
                        self.ufuncs[key] = (fresh("arr", base.sort()), base)   # keep `base` alive: ids are only unique among live terms
                    c = self.ufuncs[key][0]
                    if not any(x.eq(c == base) for x in st.pc[-40:]):
                        st.pc.append(c == base)
                    base = c
                return st.alloc(HArr(elt.kind, base, n, is_list=True))
            r = new_arr(elt.kind, "comp", n=n, is_list=True)
            st.assume(qall([k], z3.Implies(rng, z3.Select(r.a, k) == S(elt.t)), pats=[z3.Select(r.a, k)]))
            st.assume(n >= 0)
            return st.alloc(r)
        if isinstance(elt, (Ref, View)) and self.is_arr1(sub, elt):
            kind = self.elem_kind(sub, elt)
            a = fresh("compa", z3.ArraySort(INT, arr_sort(kind)))
            lens = fresh("compl", z3.ArraySort(INT, INT))
            at, lt = self.as_z3_array(sub, elt), self.length_of(sub, elt)
            st.assume(qall([k], z3.Implies(rng, z3.And(z3.Select(a, k) == S(at), z3.Select(lens, k) == S(lt), z3.Select(lens, k) >= 0)), pats=[z3.Select(lens, k)]))
            return st.alloc(HListArr(kind, a, lens, n))
        if isinstance(elt, Tup) and elt.names and all(isinstance(x, (Ref, View)) and self.is_arr1(sub, x) for x in elt.items):
            kinds = [self.elem_kind(sub, x) for x in elt.items]
            arrs = [fresh("compsa", z3.ArraySort(INT, arr_sort(kd))) for kd in kinds]
            lens = [fresh("compsl", z3.ArraySort(INT, INT)) for _ in kinds]
            eqs = []
            for x, a, ln in zip(elt.items, arrs, lens):
                eqs += [z3.Select(a, k) == S(self.as_z3_array(sub, x)), z3.Select(ln, k) == S(self.length_of(sub, x)), z3.Select(ln, k) >= 0]
            st.assume(qall([k], z3.Implies(rng, z3.And(*eqs)), pats=[z3.Select(lens[0], k)]))
            st.assume(n >= 0)
            return st.alloc(HListStruct(elt.names, kinds, arrs, lens, n, elt.tname))
        if isinstance(elt, Tup) and all(isinstance(x, Sc) for x in elt.items):
            kinds = [x.kind for x in elt.items]
            cols = [fresh("compc", arr_sort(kd)) for kd in kinds]
            st.assume(qall([k], z3.Implies(rng, z3.And(*[z3.Select(c, k) == S(x.t) for c, x in zip(cols, elt.items)]))))
            return st.alloc(HListTup(kinds, cols, n))
        raise VCError("comprehension element %r at line %d" % (elt, node.lineno))

    def mentions(self, t, c):
        if t.eq(c):
            return True
        return any(self.mentions(x, c) for x in t.children())

    def as_z3_array(self, st, v):
        """A z3 array term holding the elements of a 1-D value from index 0."""
        if isinstance(v, Ref):
            return st.obj(v).a
        o = st.obj(v.ref)
        if is_true(v.start == 0) and is_true(v.step == 1):
            return o.a
        k = z3.Int("k!lam")
        return z3.Lambda([k], z3.Select(o.a, v.start + k * v.step))

    def e_UnaryOp(self, node, st):
        v = self.eval(node.operand, st)
        if isinstance(node.op, ast.Not):
            return Sc("bool", z3.Not(truth(v)))
        if isinstance(node.op, ast.USub):
            if isinstance(v, Sc):
                return Sc("real", -v.t) if v.kind == "real" else Sc("int", -to_int(v))
            if self.is_arr1(st, v):
                return self.elementwise(st, node, lambda a: -a, [v], self.elem_kind(st, v))
        if isinstance(node.op, ast.UAdd):
            return v
        if isinstance(node.op, ast.Invert):
            if isinstance(v, Sc) and v.kind == "bool":
                return Sc("bool", z3.Not(v.t))
            if self.is_arr1(st, v) and self.elem_kind(st, v) == "bool":
                return self.elementwise(st, node, lambda a: z3.Not(a), [v], "bool")
        raise VCError("unary op at line %d" % node.lineno)

    def e_BoolOp(self, node, st):
        # short circuit: later operands are evaluated under the guard of earlier ones
        is_and = isinstance(node.op, ast.And)
        n0 = len(st.guards)
        terms = []
        for e in node.values:
            v = self.eval(e, st)
            t = truth(v)
            terms.append(t)
            if (is_and and is_false(t)) or (not is_and and is_true(t)):
                break  # python would not evaluate the remaining operands
            st.guards.append(t if is_and else z3.Not(t))
        del st.guards[n0:]
        return Sc("bool", z3.And(*terms) if is_and else z3.Or(*terms))

    def e_IfExp(self, node, st):
        c = truth(self.eval(node.test, st))
        if is_true(c):
            return self.eval(node.body, st)
        if is_false(c):
            return self.eval(node.orelse, st)
        st.guards.append(c)
        a = self.eval(node.body, st)
        st.guards.pop()
        st.guards.append(z3.Not(c))
        b = self.eval(node.orelse, st)
        st.guards.pop()
        return self.merge_vals(c, a, b, node)

    def merge_vals(self, c, a, b, node=None):
        if isinstance(a, Sc) and isinstance(b, Sc):
            if a.kind == b.kind:
                return Sc(a.kind, ite(c, a.t, b.t))
            if "real" in (a.kind, b.kind):
                return Sc("real", ite(c, to_real(a), to_real(b)))
            return Sc("int", ite(c, to_int(a), to_int(b)))
        if isinstance(a, Tup) and isinstance(b, Tup) and len(a.items) == len(b.items):
            return Tup([self.merge_vals(c, x, y, node) for x, y in zip(a.items, b.items)], a.names, a.tname)
        if isinstance(a, NoneV) and isinstance(b, NoneV):
            return NONE
        if isinstance(a, Ref) and isinstance(b, Ref) and a.ref == b.ref:
            return a
        raise VCError("cannot merge values %r / %r at line %s" % (a, b, getattr(node, "lineno", "?")))

    # ---- arithmetic
    def arith(self, op, a, b, node, st):
        """Scalar arithmetic with python/numpy typing."""
        if isinstance(op, (ast.BitAnd, ast.BitOr, ast.BitXor, ast.LShift, ast.RShift)):
            return self.bitop(op, a, b, node, st)
        if isinstance(op, ast.Div):
            x, y = to_real(a), to_real(b)
            if not self.spec and a.kind != "real" and b.kind != "real":
                self.oblige(st, "div", node, y != 0, "integer true division by zero")
            elif not self.spec and self.fsafe:
                self.oblige(st, "fsafe", node, y != 0, "float division by zero")
            r = x / y
            if not z3.is_rational_value(z3.simplify(y)):
                # consequences of real division the solver does not find by itself (nonlinear)
                st.assume(z3.Implies(z3.And(y != 0, x == 0), r == 0))
                st.assume(z3.Implies(z3.And(y > 0, x >= 0), r >= 0))
                st.assume(z3.Implies(z3.And(y > 0, x > 0), r > 0))
                st.assume(z3.Implies(z3.And(y > 0, x <= y), r <= 1))
                st.assume(z3.Implies(z3.And(y > 0, x >= y), r >= 1))
            return Sc("real", r)
        if isinstance(op, ast.Pow):
            return self.power(a, b, node, st)
        real = a.kind == "real" or b.kind == "real"
        if real:
            x, y = to_real(a), to_real(b)
        else:
            x, y = to_int(a), to_int(b)
        if isinstance(op, ast.Add):
            r = x + y
        elif isinstance(op, ast.Sub):
            r = x - y
        elif isinstance(op, ast.Mult):
            r = x * y
        elif isinstance(op, ast.FloorDiv):
            if real:
                if not self.spec and self.fsafe:
                    self.oblige(st, "fsafe", node, y != 0, "float floor division by zero")
                return Sc("real", z3.ToReal(z3.ToInt(x / y)))
            if not self.spec:
                self.oblige(st, "div", node, y != 0, "integer division by zero")
            r = py_floordiv(x, y)
        elif isinstance(op, ast.Mod):
            if real:
                raise VCError("float modulo at line %d" % node.lineno)
            if not self.spec:
                self.oblige(st, "div", node, y != 0, "integer modulo by zero")
            r = py_mod(x, y)
        else:
            raise VCError("operator %s at line %d" % (type(op).__name__, node.lineno))
        return Sc("real" if real else "int", r)

    def power(self, a, b, node, st):
        if b.kind == "int" and z3.is_int_value(z3.simplify(b.t)):
            e = z3.simplify(b.t).as_long()
            if 0 <= e <= 4:
                base = a.t
                r = z3.RealVal(1) if a.kind == "real" else zint(1)
                for _ in range(e):
                    r = r * base
                return Sc(a.kind if a.kind != "bool" else "int", r)
        f = self.ufunc("pow", [REAL, REAL], REAL)
        r = f(to_real(a), to_real(b))
        # sound order facts about pow on non-negative bases
        st.assume(z3.Implies(to_real(a) >= 0, r >= 0))
        st.assume(z3.Implies(to_real(a) > 0, r > 0))
        return Sc("real", r)

    def bitop(self, op, a, b, node, st):
        name = {ast.BitAnd: "bitand", ast.BitOr: "bitor", ast.BitXor: "bitxor", ast.LShift: "shl", ast.RShift: "shr"}[type(op)]
        if a.kind == "bool" and b.kind == "bool" and name in ("bitand", "bitor"):
            return Sc("bool", z3.And(a.t, b.t) if name == "bitand" else z3.Or(a.t, b.t))
        x, y = to_int(a), to_int(b)
        ys = z3.simplify(y)
        if name == "shl" and z3.is_int_value(ys):
            return Sc("int", x * (2 ** ys.as_long()))
        if name == "shr" and z3.is_int_value(ys):
            return Sc("int", py_floordiv(x, zint(2 ** ys.as_long())))
        if name == "bitand" and z3.is_int_value(ys) and (ys.as_long() + 1) & ys.as_long() == 0:
            # x & (2^k - 1) == x mod 2^k
            return Sc("int", py_mod(x, zint(ys.as_long() + 1)))
        f = self.ufunc(name, [INT, INT], INT)
        r = f(x, y)
        if name in ("bitand", "bitor", "bitxor"):
            st.assume(z3.Implies(z3.And(x >= 0, y >= 0), r >= 0))
        if name == "bitand":
            st.assume(z3.Implies(z3.And(x >= 0, y >= 0), z3.And(r <= x, r <= y)))
        return Sc("int", r)

    def e_BinOp(self, node, st):
        a = self.eval(node.left, st)
        b = self.eval(node.right, st)
        return self.binop(node.op, a, b, node, st)

    def binop(self, op, a, b, node, st):
        if isinstance(a, Sc) and isinstance(b, Sc):
            return self.arith(op, a, b, node, st)
        if isinstance(a, Mat) or isinstance(b, Mat):
            if isinstance(op, ast.Mult) and isinstance(a, Mat) and isinstance(b, Sc):
                return Mat(M_SMUL(a.t, to_real(b)))
            if isinstance(op, ast.Mult) and isinstance(b, Mat) and isinstance(a, Sc):
                return Mat(M_SMUL(b.t, to_real(a)))
            if isinstance(op, ast.MatMult) and isinstance(a, Mat) and isinstance(b, Mat):
                return Mat(M_MUL(a.t, b.t))
            if isinstance(op, ast.Add) and isinstance(a, Mat) and isinstance(b, Mat):
                return Mat(M_ADD(a.t, b.t))
            raise VCError("matrix operation %s at line %d" % (type(op).__name__, node.lineno))
        a_arr, b_arr = self.is_arr1(st, a), self.is_arr1(st, b)
        if isinstance(op, ast.MatMult) and a_arr and b_arr:
            # dot product of two vectors: lengths must agree; the value is left open (a fresh real: sound over-approximation)
            if not self.spec:
                self.oblige(st, "shape", node, self.length_of(st, a) == self.length_of(st, b), "dot product of vectors of different lengths")
            return Sc("real", fresh("dot", REAL))
        if (a_arr or isinstance(a, Sc)) and (b_arr or isinstance(b, Sc)) and (a_arr or b_arr):
            ka = a.kind if isinstance(a, Sc) else self.elem_kind(st, a)
            kb = b.kind if isinstance(b, Sc) else self.elem_kind(st, b)
            if a_arr and b_arr and not self.spec:
                self.oblige(st, "shape", node, self.length_of(st, a) == self.length_of(st, b), "elementwise operands differ in length")
            if isinstance(op, (ast.Div, ast.Pow)) or "real" in (ka, kb):
                rk = "real"
            elif isinstance(op, (ast.BitAnd, ast.BitOr, ast.Mult)) and ka == "bool" and kb == "bool":
                rk = "bool"   # numpy: the product of two boolean arrays is their conjunction (dtype bool)
            else:
                rk = "int"
            # numpy true division by an array/scalar never raises; no div obligation elementwise
            def f(x, y, op=op, ka=ka, kb=kb):
                if rk == "bool" and isinstance(op, ast.Mult):
                    return z3.And(x, y)
                saved, self.spec = self.spec, True
                try:
                    return self.arith(op, Sc(ka, x), Sc(kb, y), node, st).t
                finally:
                    self.spec = saved
            if not self.spec and self.fsafe and isinstance(op, ast.Div):
                if isinstance(b, Sc):
                    self.oblige(st, "fsafe", node, to_real(b) != 0, "array divided by zero scalar")
            res = self.elementwise(st, node, f, [a, b], rk)
            if isinstance(op, ast.Pow) and isinstance(a, Sc) and b_arr:
                # sound sign facts about (scalar base) ** array, for every element (the scalar case states them per call)
                k = fresh("k", INT)
                ra = st.obj(res).a
                n = self.length_of(st, res)
                st.assume(qall([k], z3.Implies(z3.And(k >= 0, k < n, to_real(a) > 0), z3.Select(ra, k) > 0), pats=[z3.Select(ra, k)]))
                st.assume(qall([k], z3.Implies(z3.And(k >= 0, k < n, to_real(a) >= 0), z3.Select(ra, k) >= 0), pats=[z3.Select(ra, k)]))
            if isinstance(op, ast.Div) and isinstance(b, Sc) and a_arr:
                y = to_real(b)
                k = fresh("k", INT)
                ra = st.obj(res).a
                ea = self.read_elem(st, a, k)
                ea = z3.ToReal(ea) if ka == "int" else ea
                n = self.length_of(st, a)
                st.assume(qall([k], z3.Implies(z3.And(k >= 0, k < n, y != 0, ea == 0), z3.Select(ra, k) == 0), pats=[z3.Select(ra, k)]))
                st.assume(qall([k], z3.Implies(z3.And(k >= 0, k < n, y > 0, ea >= 0), z3.Select(ra, k) >= 0), pats=[z3.Select(ra, k)]))
                st.assume(qall([k], z3.Implies(z3.And(k >= 0, k < n, y > 0, z3.Select(ra, k) > 0), ea > 0), pats=[z3.Select(ra, k)]))
            return res
        if isinstance(op, ast.Add) and isinstance(a, Tup) and isinstance(b, Tup):
            return Tup(a.items + b.items)
        if isinstance(op, ast.Add) and isinstance(a, StrC) and isinstance(b, StrC):
            return StrC(a.s + b.s)
        raise VCError("binary op %s on %r, %r at line %d" % (type(op).__name__, a, b, node.lineno))

    def elementwise(self, st, node, f, args, rkind):
        """Fresh array r with r[k] = f(args[k]...) for all k in range."""
        n = None
        for v in args:
            if not isinstance(v, Sc):
                n = self.length_of(st, v)
                break
        r = new_arr(rkind, "ew", n=n)
        k = fresh("k", INT)
        ts = []
        for v in args:
            ts.append(v.t if isinstance(v, Sc) else self.read_elem(st, v, k))
        body = z3.Select(r.a, k) == f(*ts)
        st.assume(qall([k], z3.Implies(z3.And(k >= 0, k < n), body), pats=[z3.Select(r.a, k)]))
        st.assume(n >= 0)
        return st.alloc(r)

    # ---- comparisons
    def compare1(self, op, a, b, node, st):
        if isinstance(op, (ast.Is, ast.IsNot)):
            if isinstance(a, NoneV) or isinstance(b, NoneV):
                same = isinstance(a, NoneV) and isinstance(b, NoneV)
                return Sc("bool", z3.BoolVal(same if isinstance(op, ast.Is) else not same))
            if isinstance(a, Ref) and isinstance(b, Ref):
                same = a.ref == b.ref
                return Sc("bool", z3.BoolVal(same if isinstance(op, ast.Is) else not same))
            raise VCError("'is' on %r, %r at line %d" % (a, b, node.lineno))
        if isinstance(op, (ast.In, ast.NotIn)):
            t = self.contains(st, b, a, node)
            return Sc("bool", t if isinstance(op, ast.In) else z3.Not(t))
        if isinstance(a, Sc) and isinstance(b, Sc):
            if a.kind == "bool" and b.kind == "bool" and isinstance(op, (ast.Eq, ast.NotEq)):
                t = a.t == b.t
                return Sc("bool", t if isinstance(op, ast.Eq) else z3.Not(t))
            real = a.kind == "real" or b.kind == "real"
            x, y = (to_real(a), to_real(b)) if real else (to_int(a), to_int(b))
            t = {ast.Eq: lambda: x == y, ast.NotEq: lambda: x != y, ast.Lt: lambda: x < y, ast.LtE: lambda: x <= y,
                 ast.Gt: lambda: x > y, ast.GtE: lambda: x >= y}[type(op)]()
            return Sc("bool", t)
        if isinstance(a, Tup) and isinstance(b, Tup) and len(a.items) == len(b.items):
            if isinstance(op, (ast.Eq, ast.NotEq)):
                t = z3.And(*[self.compare1(ast.Eq(), x, y, node, st).t for x, y in zip(a.items, b.items)])
                return Sc("bool", t if isinstance(op, ast.Eq) else z3.Not(t))
            if isinstance(op, (ast.Gt, ast.Lt, ast.GtE, ast.LtE)) and len(a.items) >= 1:
                # lexicographic
                strict = isinstance(op, (ast.Gt, ast.Lt))
                cmp_op = ast.Gt() if isinstance(op, (ast.Gt, ast.GtE)) else ast.Lt()
                t = z3.BoolVal(not strict)
                for x, y in reversed(list(zip(a.items, b.items))):
                    s = self.compare1(cmp_op, x, y, node, st).t
                    e = self.compare1(ast.Eq(), x, y, node, st).t
                    t = z3.Or(s, z3.And(e, t))
                return Sc("bool", t)
        if isinstance(a, Mat) and isinstance(b, Mat) and isinstance(op, (ast.Eq, ast.NotEq)):
            return Sc("bool", (a.t == b.t) if isinstance(op, ast.Eq) else (a.t != b.t))
        if isinstance(a, StrC) and isinstance(b, StrC) and isinstance(op, (ast.Eq, ast.NotEq)):
            return Sc("bool", z3.BoolVal((a.s == b.s) == isinstance(op, ast.Eq)))
        if isinstance(a, NoneV) or isinstance(b, NoneV):
            if isinstance(op, (ast.Eq, ast.NotEq)):
                same = isinstance(a, NoneV) and isinstance(b, NoneV)
                return Sc("bool", z3.BoolVal(same == isinstance(op, ast.Eq)))
        a_arr, b_arr = self.is_arr1(st, a) if not isinstance(a, (Sc, Tup, NoneV, StrC)) else False, \
            self.is_arr1(st, b) if not isinstance(b, (Sc, Tup, NoneV, StrC)) else False
        if a_arr or b_arr:
            ka = a.kind if isinstance(a, Sc) else self.elem_kind(st, a)
            kb = b.kind if isinstance(b, Sc) else self.elem_kind(st, b)
            if a_arr and b_arr and not self.spec:
                self.oblige(st, "shape", node, self.length_of(st, a) == self.length_of(st, b), "elementwise comparison operands differ in length")
            f = lambda x, y: self.compare1(op, Sc(ka, x), Sc(kb, y), node, st).t
            return self.elementwise(st, node, f, [a, b], "bool")
        raise VCError("comparison of %r and %r at line %d" % (a, b, node.lineno))

    def e_Compare(self, node, st):
        left = self.eval(node.left, st)
        terms = []
        n0 = len(st.guards)
        res = None
        for op, rn in zip(node.ops, node.comparators):
            right = self.eval(rn, st)
            v = self.compare1(op, left, right, node, st)
            if len(node.ops) == 1:
                return v
            terms.append(v.t)
            st.guards.append(v.t)
            left = right
        del st.guards[n0:]
        return Sc("bool", z3.And(*terms))

    def e_JoinedStr(self, node, st):
        return StrC("<f-string>")

    def e_Dict(self, node, st):
        if node.keys:
            raise VCError("non-empty dict literal at line %d" % node.lineno)
        # key/value types are fixed at first use
        return st.alloc(HDict(INT, "int", z3.K(INT, z3.BoolVal(False)), fresh("dv", z3.ArraySort(INT, INT)), zint(0), "?"))

    def key_term(self, st, o, kv, node):
        """z3 key term of sort o.ksort for python key value kv."""
        if o.kdesc == "?":
            if isinstance(kv, Tup) and len(kv.items) == 2:
                o.kdesc, o.ksort = "pair", PAIR_SORT
                o.dom = z3.K(PAIR_SORT, z3.BoolVal(False))
                o.val = fresh("dv", z3.ArraySort(PAIR_SORT, SORTS[o.vkind]))
            elif isinstance(kv, Sc):
                o.kdesc = "int"
            else:
                o.kdesc = "str"
        if o.kdesc == "int":
            return to_int(kv)
        if o.kdesc == "pair":
            if isinstance(kv, Tup) and len(kv.items) == 2:
                return PAIR_MK(to_int(kv.items[0]), to_int(kv.items[1]))
        if o.kdesc == "str":
            return self.str_key(st, kv, node)
        raise VCError("dict key %r for %s-keyed dict at line %d" % (kv, o.kdesc, node.lineno))

    def contains(self, st, container, item, node):
        if isinstance(container, Ref):
            o = st.obj(container)
            if isinstance(o, (HDict, HSet)):
                return z3.Select(o.dom, self.key_term(st, o, item, node))
            if isinstance(o, HArr) and isinstance(item, Sc):
                k = fresh("k", INT)
                return z3.Exists([k], z3.And(k >= 0, k < o.n, z3.Select(o.a, k) == item.t))
        if isinstance(container, Tup) and isinstance(item, Sc):
            return z3.Or(*[self.compare1(ast.Eq(), item, x, node, st).t for x in container.items if isinstance(x, Sc)])
        raise VCError("'in' on %r at line %d" % (container, node.lineno))

    # ---- attribute / subscript
    def e_Attribute(self, node, st):
        if isinstance(node.value, ast.Name) and node.value.id == "self":
            # attributes of the estimator are modelled as variables named "self.<attr>" (declared in the contract's locals/params)
            key = "self." + node.attr
            if key in st.vars:
                v, d = st.vars[key]
                if d is not True and not self.spec:
                    self.oblige(st, "defined", node, d if d is not False else z3.BoolVal(False), "attribute '%s' may be unset" % key)
                return v
            raise VCError("attribute %s not declared in the contract (line %d)" % (key, node.lineno))
        if isinstance(node.value, ast.Name) and node.value.id not in st.vars:
            g = self.global_attr(node.value.id, node.attr)
            if g is not None:
                return g
        v = self.eval(node.value, st)
        a = node.attr
        if isinstance(v, Tup) and v.names and a in v.names:
            return v.items[v.names.index(a)]
        if a == "shape":
            if isinstance(v, View):
                return Tup([Sc("int", v.n)])
            o = st.obj(v)
            if isinstance(o, HArr2):
                return Tup([Sc("int", o.n), Sc("int", o.m)])
            return Tup([Sc("int", o.n)])
        if a == "size" and self.is_arr1(st, v):
            return Sc("int", self.length_of(st, v))
        if a == "dtype":
            return Opaque("dtype")
        if a == "ndim":
            o = st.obj(v) if isinstance(v, Ref) else None
            return Sc("int", zint(2 if isinstance(o, HArr2) else 1))
        if isinstance(v, Opaque):
            return Fn("%s.%s" % (v.tag, a), "lib")
        raise VCError("attribute .%s of %r at line %d" % (a, v, node.lineno))

    def slice_parts(self, sl, st):
        lo = self.eval_int(sl.lower, st) if sl.lower is not None else None
        hi = self.eval_int(sl.upper, st) if sl.upper is not None else None
        step = None
        if sl.step is not None:
            step = z3.simplify(self.eval_int(sl.step, st))
            if not z3.is_int_value(step):
                raise VCError("symbolic slice step at line %d" % sl.lineno)
            step = step.as_long()
        return lo, hi, step

    def e_Subscript(self, node, st):
        base = self.eval(node.value, st)
        return self.subscript(base, node.slice, node, st)

    def subscript(self, base, sl, node, st):
        if isinstance(base, Fn) and getattr(base, "is_tuple", False):
            self.eval_int(sl, st)  # a tuple of functions, all described by the same func_params entry; index range is the caller's precondition
            return Fn(base.name, "param")
        if isinstance(base, Opaque):
            self.eval(sl, st)
            return Opaque(base.tag)
        if isinstance(base, Tup):
            if isinstance(sl, ast.Slice):
                lo, hi, step = self.slice_parts(sl, st)
                lo = z3.simplify(lo).as_long() if lo is not None else None
                hi = z3.simplify(hi).as_long() if hi is not None else None
                return Tup(base.items[slice(lo, hi, step)])
            idx = z3.simplify(self.eval_int(sl, st))
            n = len(base.items)
            if z3.is_int_value(idx):
                i = idx.as_long()
                if not (-n <= i < n):
                    if not self.spec:
                        self.oblige(st, "index", node, z3.BoolVal(False), "tuple index out of range")
                    raise VCError("tuple index %d out of range at line %d" % (i, node.lineno))
                return base.items[i]
            idx = self.norm_index(st, node, idx, zint(n), "tuple index")
            r = base.items[-1]
            for j in range(n - 2, -1, -1):
                r = self.merge_vals(idx == j, base.items[j], r, node)
            return r
        if isinstance(base, View) or isinstance(base, Ref):
            o = st.obj(base.ref)
            if isinstance(o, (HArr, HStr)):
                return self.sub_arr1(base, o, sl, node, st)
            if isinstance(o, HArr2):
                return self.sub_arr2(base, o, sl, node, st)
            if isinstance(o, HListArr) and isinstance(sl, ast.Slice):
                lo, hi, step = self.slice_parts(sl, st)
                if step not in (None, 1):
                    raise VCError("strided slice of a list at line %d" % node.lineno)
                s0, ln = self.clamp_slice(st, lo, hi, o.n)
                k = z3.Int("k!lsl")
                return st.alloc(HListArr(o.kind, z3.Lambda([k], z3.Select(o.a, s0 + k)), z3.Lambda([k], z3.Select(o.lens, s0 + k)), ln))   # a new list (python list slicing copies)
            if isinstance(o, (HListArr, HListStr)):
                if isinstance(sl, ast.Slice):
                    raise VCError("slice of list of arrays at line %d" % node.lineno)
                idx = self.norm_index(st, node, self.eval_int(sl, st), o.n, "list index")
                cls = HStr if isinstance(o, HListStr) else None
                if cls:
                    e = HStr(z3.Select(o.a, idx), z3.Select(o.lens, idx))
                else:
                    e = HArr(o.kind, z3.Select(o.a, idx), z3.Select(o.lens, idx), origin=(base.ref, idx))
                st.assume(e.n >= 0)
                return st.alloc(e)
            if isinstance(o, HListTup):
                idx = self.norm_index(st, node, self.eval_int(sl, st), o.n, "list index")
                return Tup([Sc(k, z3.Select(c, idx)) for k, c in zip(o.kinds, o.cols)], o.names)
            if isinstance(o, HListArr2):
                idx = self.norm_index(st, node, self.eval_int(sl, st), o.n, "list index")
                e = HArr2(o.kind, z3.Select(o.a, idx), z3.Select(o.lens, idx), o.m)
                st.assume(e.n >= 0)
                return st.alloc(e)
            if isinstance(o, HListStruct):
                idx = self.norm_index(st, node, self.eval_int(sl, st), o.n, "list index")
                items = []
                for j, (kd, a, ln) in enumerate(zip(o.kinds, o.arrs, o.lens)):
                    e = HArr(kd, z3.Select(a, idx), z3.Select(ln, idx), origin=(base.ref, idx, j))
                    st.assume(e.n >= 0)
                    items.append(st.alloc(e))
                return Tup(items, o.names, o.tname)
            if isinstance(o, HDict):
                kv = self.eval(sl, st)
                kt = self.key_term(st, o, kv, node)
                if not self.spec:
                    if any("KeyError" in c for c in st.in_try):
                        pass  # handled by the try statement
                    else:
                        self.oblige(st, "key", node, z3.Select(o.dom, kt), "dictionary key may be absent")
                return Sc(o.vkind, z3.Select(o.val, kt))
        raise VCError("subscript of %r at line %d" % (base, node.lineno))

    def sub_arr1(self, base, o, sl, node, st):
        n = self.length_of(st, base)
        if isinstance(sl, ast.Slice):
            lo, hi, step = self.slice_parts(sl, st)
            bstart, bstep = (base.start, base.step) if isinstance(base, View) else (zint(0), zint(1))
            if step in (None, 1):
                s, ln = self.clamp_slice(st, lo, hi, n)
                return View(base.ref, z3.simplify(bstart + s * bstep), bstep, ln)
            if step == -1 and lo is None and hi is None:
                return View(base.ref, z3.simplify(bstart + (n - 1) * bstep), z3.simplify(-bstep), n)
            raise VCError("slice step %r at line %d" % (step, node.lineno))
        idxv = self.eval(sl, st)
        if isinstance(idxv, Sc):
            idx = to_int(idxv) if idxv.kind != "real" else z3.ToInt(idxv.t)
            idx = self.norm_index(st, node, idx, n, "array index")
            t = self.read_elem(st, base, idx)
            return Sc(o.kind, t)
        if self.is_arr1(st, idxv):
            ik = self.elem_kind(st, idxv)
            m = self.length_of(st, idxv)
            if ik == "bool":
                if not self.spec:
                    self.oblige(st, "index", node, m == n, "boolean mask length differs from array length")
                r = new_arr(o.kind, "msk")
                st.assume(z3.And(r.n >= 0, r.n <= n))
                # every selected element comes from the base (witness function)
                w = fresh_func("mw", INT, INT)
                k = fresh("k", INT)
                st.assume(qall([k], z3.Implies(z3.And(k >= 0, k < r.n), z3.And(
                    w(k) >= 0, w(k) < n, self.read_elem(st, idxv, w(k)),
                    z3.Select(r.a, k) == self.read_elem(st, base, w(k)))), pats=[z3.Select(r.a, k)]))
                return st.alloc(r)
            # integer fancy index
            k = fresh("k", INT)
            if not self.spec:
                ik_t = self.read_elem(st, idxv, k)
                self.oblige(st, "index", node, qall([k], z3.Implies(z3.And(k >= 0, k < m), z3.And(ik_t >= -n, ik_t < n))),
                            "index array entry out of range")
            r = new_arr(o.kind, "fancy", n=m)
            ik_t = self.read_elem(st, idxv, k)
            wrapped = ite(ik_t >= 0, ik_t, ik_t + n)
            st.assume(qall([k], z3.Implies(z3.And(k >= 0, k < m), z3.Select(r.a, k) == self.read_elem(st, base, wrapped)),
                                pats=[z3.Select(r.a, k)]))
            return st.alloc(r)
        raise VCError("array index %r at line %d" % (idxv, node.lineno))

    def sub_arr2(self, base, o, sl, node, st):
        if isinstance(sl, ast.Tuple) and len(sl.elts) == 2 and not any(isinstance(e, ast.Slice) for e in sl.elts):
            i = self.norm_index(st, node, self.eval_int(sl.elts[0], st), o.n, "row index")
            j = self.norm_index(st, node, self.eval_int(sl.elts[1], st), o.m, "column index")
            return Sc(o.kind, z3.Select(z3.Select(o.a, i), j))
        if isinstance(sl, ast.Slice):
            lo, hi, step = self.slice_parts(sl, st)
            if step not in (None, 1):
                raise VCError("2-D slice step at line %d" % node.lineno)
            s, ln = self.clamp_slice(st, lo, hi, o.n)
            k = z3.Int("k!lam")
            return st.alloc(HArr2(o.kind, z3.Lambda([k], z3.Select(o.a, s + k)), ln, o.m))
        if not isinstance(sl, ast.Tuple):
            i = self.norm_index(st, node, self.eval_int(sl, st), o.n, "row index")
            return st.alloc(HArr(o.kind, z3.Select(o.a, i), o.m, origin=(base.ref, i)))
        raise VCError("2-D subscript at line %d" % node.lineno)
