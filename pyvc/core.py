"""The verifier proper: loads real source from the repository, runs the symbolic
executor on one function under its contract, returns named obligations."""
import ast
import os
import time
import hashlib
import z3

from .values import *  # noqa
from .state import State
from .expr import ExprMixin, zint, is_true
from .stmts import StmtMixin
from .calls import CallMixin
from .lib import LibMixin
from .spec import SpecMixin
from . import solve

REPO = os.environ.get("VERIF_REPO", "/repo")
# a path starting with "@site/" names a module of an installed dependency: it is read, like the repository's own files, from the
# source that the repository's interpreter imports (site-packages of /venv) on every run
SITE = os.environ.get("VERIF_SITE") or (sorted(__import__("glob").glob("/venv/lib/python3*/site-packages")) or ["/nonexistent"])[0]


def source_path(path):
    return os.path.join(SITE, path[len("@site/"):]) if path.startswith("@site/") else os.path.join(REPO, path)

LIB_MODULES = {"np": "np", "numpy": "np", "pandas": "pd", "numba": "numba", "math": "math", "scipy": "scipy", "pd": "pd", "dask": "dask"}


class ModInfo:
    def __init__(self, path):
        self.path = path
        with open(source_path(path)) as f:
            self.src = f.read()
        self.tree = ast.parse(self.src)
        self.funcs = {}  # qualified name -> FunctionDef
        self.consts = {}
        self.imports = {}  # local name -> (module path, remote name) for repo imports / lib alias
        self.namedtuples = {}
        self._scan(self.tree.body, "")
        for n in self.tree.body:
            if isinstance(n, ast.Assign) and len(n.targets) == 1 and isinstance(n.targets[0], ast.Name):
                nm = n.targets[0].id
                v = n.value
                if isinstance(v, ast.Call) and isinstance(v.func, ast.Name) and v.func.id == "namedtuple":
                    self.namedtuples[nm] = [e.value for e in v.args[1].elts]
                else:
                    self.consts[nm] = v
            elif isinstance(n, ast.ImportFrom):
                for a in n.names:
                    self.imports[a.asname or a.name] = (n.module, n.level, a.name)
            elif isinstance(n, ast.Import):
                for a in n.names:
                    self.imports[a.asname or a.name] = (a.name, -1, None)

    def _scan(self, body, prefix):
        for n in body:
            if isinstance(n, (ast.FunctionDef,)):
                self.funcs[prefix + n.name] = n
                self._scan(n.body, prefix + n.name + ".<locals>.")
            elif isinstance(n, ast.ClassDef):
                self._scan(n.body, prefix + n.name + ".")


class Obligation:
    __slots__ = ("name", "kind", "line", "note", "verdict", "backend", "ms", "model", "trace", "func")

    def as_dict(self):
        return {k: getattr(self, k) for k in ("name", "kind", "line", "note", "verdict", "backend", "ms", "model", "trace", "func")}


class Verifier(ExprMixin, StmtMixin, CallMixin, LibMixin, SpecMixin):
    State = State

    def __init__(self, contracts, macros=None, timeout_ms=None):
        self.contracts = contracts
        self.macros = macros or {}
        self.mods = {}
        self.timeout_ms = timeout_ms
        self._spec_cache = {}
        self._mut_cache = {}
        self.abstract_macros = set()
        self.inline_ok = set()

    # ------------------------------------------------------------ source
    def module(self, path):
        if path not in self.mods:
            self.mods[path] = ModInfo(path)
        return self.mods[path]

    def lookup_function(self, qn):
        path, name = qn.split("::")
        name = name.split("#")[0]
        mod = self.module(path)
        if name not in mod.funcs:
            raise VCError("function %s not found in %s" % (name, path))
        return mod, mod.funcs[name]

    def resolve_import(self, mod, name):
        """Repo-level resolution of an imported name -> qualified function name or None."""
        if name not in mod.imports:
            return None
        module, level, remote = mod.imports[name]
        if level == -1:
            return None
        if level > 0:
            base = os.path.dirname(mod.path)
            for _ in range(level - 1):
                base = os.path.dirname(base)
            cand = os.path.join(base, *(module.split(".") if module else [])) + ".py"
        else:
            cand = os.path.join(*module.split(".")) + ".py"
        if os.path.exists(os.path.join(REPO, cand)):
            return cand, remote
        return None

    def global_name(self, name, node, st):
        mod = self.mod
        sym = (self.contract.get("symbolic_consts") or {}) if self.contract else {}
        if name in self.sym_consts:
            return self.sym_consts[name]
        if name in mod.funcs:
            return Fn("%s::%s" % (mod.path, name), "repo")
        if name in mod.namedtuples:
            f = Fn(name, "namedtuple")
            f.fields = mod.namedtuples[name]
            return f
        if name in mod.consts:
            saved = self.spec
            try:
                return self.eval(mod.consts[name], State())
            except VCError:
                raise VCError("module constant %s not evaluable (line %s)" % (name, getattr(node, "lineno", "?")))
            finally:
                self.spec = saved
        if name in mod.imports:
            module, level, remote = mod.imports[name]
            if level == -1 or (remote is None):
                root = (module or name).split(".")[0]
                return Opaque(LIB_MODULES.get(name, LIB_MODULES.get(root, root)))
            r = self.resolve_import(mod, name)
            if r is not None:
                path, remote = r
                m2 = self.module(path)
                if remote in m2.funcs:
                    return Fn("%s::%s" % (path, remote), "repo")
                if remote in m2.namedtuples:
                    f = Fn(remote, "namedtuple")
                    f.fields = m2.namedtuples[remote]
                    return f
                if remote in m2.consts:
                    saved_mod = self.mod
                    self.mod = m2
                    try:
                        return self.global_name(remote, node, st)
                    finally:
                        self.mod = saved_mod
            return Opaque(name)
        if name in ("True", "False"):
            return Sc("bool", z3.BoolVal(name == "True"))
        raise VCError("unknown name %s at line %s in %s" % (name, getattr(node, "lineno", "?"), self.fname))

    def global_attr(self, modname, attr):
        mod = self.mod
        if modname in mod.imports:
            module, level, remote = mod.imports[modname]
            root = LIB_MODULES.get(modname) or LIB_MODULES.get((module or "").split(".")[0])
            if root:
                full = "%s.%s" % (root, attr)
                if full == "np.pi":
                    return Sc("real", z3.RealVal("3.141592653589793"))
                if full in ("np.inf",):
                    return Sc("real", fresh("inf", REAL))
                if full in ("numba.prange",):
                    return None
                if hasattr(self, "l_" + full.replace(".", "_")):
                    return Fn(full, "lib")
                return Opaque(full)
        return None

    def number_loops(self, fdef):
        loops = [n for n in ast.walk(fdef) if isinstance(n, (ast.For, ast.While))]
        loops.sort(key=lambda n: (n.lineno, n.col_offset))
        keys, cnt = {}, {"for": 0, "while": 0}
        for n in loops:
            kind = "for" if isinstance(n, ast.For) else "while"
            cnt[kind] += 1
            keys[id(n)] = "%s#%d" % (kind, cnt[kind])
        return keys

    def extract_segment(self, fdef, seg):
        """seg = dict(start=<first line of a statement>, start_ordinal=1, end=<first line of a later sibling>|None, end_ordinal=1)."""
        def head(n):
            return ast.unparse(n).splitlines()[0].strip()
        want = seg["start"].strip()
        hits = []
        for parent in ast.walk(fdef):
            for field in ("body", "orelse", "finalbody"):
                blk = getattr(parent, field, None)
                if isinstance(blk, list):
                    for i, stmt in enumerate(blk):
                        if want.startswith("@assign:"):
                            if isinstance(stmt, ast.Assign) and len(stmt.targets) == 1 and ast.unparse(stmt.targets[0]) == want.split(":", 1)[1]:
                                hits.append((stmt.lineno, blk, i))
                        elif isinstance(stmt, ast.stmt) and head(stmt) == want:
                            hits.append((stmt.lineno, blk, i))
        hits.sort(key=lambda h: h[0])
        k = seg.get("start_ordinal", 1)
        if len(hits) < k:
            raise VCError("segment start %r #%d not found in %s" % (want, k, fdef.name))
        _, blk, i = hits[k - 1]
        if seg.get("end") is None:
            return [blk[i]]
        endw = seg["end"].strip()
        cnt = 0
        for j in range(i + 1, len(blk)):
            if head(blk[j]) == endw:
                cnt += 1
                if cnt == seg.get("end_ordinal", 1):
                    return blk[i:j + (1 if seg.get("end_inclusive") else 0)]
        raise VCError("segment end %r not found after %r in %s" % (endw, want, fdef.name))

    def slice_stmts(self, stmts, keep):
        """Program slice: keep control structure and the assignments to the named variables, drop everything else
        (the dropped statements are reported as unverified)."""
        out = []
        for s in stmts:
            if isinstance(s, (ast.Assign, ast.AugAssign, ast.AnnAssign)):
                tg = s.targets if isinstance(s, ast.Assign) else [s.target]
                names = set()
                for t in tg:
                    for n in ast.walk(t):
                        if isinstance(n, ast.Name):
                            names.add(n.id)
                if names and names <= keep and all(isinstance(t, (ast.Name, ast.Tuple)) for t in tg):
                    out.append(s)
            elif isinstance(s, (ast.For, ast.While)):
                s2 = type(s)(**{f: getattr(s, f) for f in s._fields})
                ast.copy_location(s2, s)
                inner = self.slice_stmts(s.body, keep)
                if not any(isinstance(x, (ast.Assign, ast.AugAssign, ast.AnnAssign, ast.Return)) for b in inner for x in ast.walk(b)) and out:
                    continue  # a nested loop that does not touch the kept variables has no effect on them
                s2.body = inner or [ast.copy_location(ast.Pass(), s)]
                s2.orelse = []
                self.loop_keys[id(s2)] = self.loop_keys[id(s)]
                out.append(s2)
            elif isinstance(s, ast.If):
                b, o = self.slice_stmts(s.body, keep), self.slice_stmts(s.orelse, keep)
                if b or o:
                    s2 = ast.If(test=s.test, body=b or [ast.copy_location(ast.Pass(), s)], orelse=o)
                    ast.copy_location(s2, s)
                    out.append(s2)
            elif isinstance(s, (ast.Break, ast.Continue, ast.Return)):
                out.append(s)
        return out

    def anchor_ghost(self, fdef, specs):
        """ghost_after = [(statement text, ordinal, ghost code)]: anchored on the real statement whose
        unparsed text matches; an anchor matching no statement is a checker error (exit 3)."""
        out = {}
        stmts = [n for n in ast.walk(fdef) if isinstance(n, ast.stmt)]
        stmts.sort(key=lambda n: (n.lineno, n.col_offset))
        for pattern, ordinal, code in specs:
            if pattern.startswith("@augassign:"):
                nm = pattern.split(":", 1)[1]
                hits = [n for n in stmts if isinstance(n, ast.AugAssign) and isinstance(n.target, ast.Name) and n.target.id == nm]
            elif pattern.startswith("@store:"):
                # any store (plain or augmented) through a subscript of the named array, e.g. @store:coo.key - robust against edits of
                # the index or of the stored value, which are then verified instead of un-anchoring the ghost code
                nm = pattern.split(":", 1)[1]
                hits = [n for n in stmts if (isinstance(n, ast.AugAssign) and isinstance(n.target, ast.Subscript) and ast.unparse(n.target.value) == nm)
                        or (isinstance(n, ast.Assign) and len(n.targets) == 1 and isinstance(n.targets[0], ast.Subscript)
                            and ast.unparse(n.targets[0].value) == nm)]
            elif pattern.startswith("@call:"):
                # the statement (assignment or expression statement) that calls the named function
                nm = pattern.split(":", 1)[1]
                hits = [n for n in stmts if isinstance(n, (ast.Assign, ast.Expr, ast.AugAssign))
                        and any(isinstance(c, ast.Call) and isinstance(c.func, ast.Name) and c.func.id == nm for c in ast.walk(n.value))]
            elif pattern.startswith("@assign:"):
                # anchored on the assigned name, so that an edit of the right-hand side is verified, not lost
                nm = pattern.split(":", 1)[1]
                hits = [n for n in stmts if isinstance(n, ast.Assign) and len(n.targets) == 1 and isinstance(n.targets[0], ast.Name) and n.targets[0].id == nm]
            else:
                want = ast.unparse(ast.parse(pattern).body[0])
                hits = [n for n in stmts if ast.unparse(n) == want]
            if len(hits) < ordinal:
                raise VCError("ghost anchor %r #%d not found in %s" % (pattern, ordinal, fdef.name))
            out[id(hits[ordinal - 1])] = code
        return out

    # ------------------------------------------------------------ obligations
    def oblige(self, st, kind, node, goal, note):
        if self.spec:
            return
        line = getattr(node, "lineno", self.cur_line)
        self.counter[kind] = self.counter.get(kind, 0) + 1
        o = Obligation()
        o.func = self.qname
        o.kind, o.line, o.note = kind, line, note
        o.name = "%s/%s#%d@L%d" % (self.qname, kind, self.counter[kind], line)
        g = z3.simplify(goal) if not z3.is_quantifier(goal) else goal
        if z3.is_true(g):
            o.verdict, o.backend, o.ms, o.model = "unsat", "simplifier", 0.0, None
        elif z3.is_false(g):
            # the obligation is "this point is unreachable" (a certainly-unbound read, an explicit raise): refuted as soon as the
            # path is feasible.  Feasibility is judged like everywhere else in the executor: on the quantifier-free part of the
            # path condition (first with everything, briefly).
            r = solve.prove(st.full_pc(), goal, 3000, external=False)
            if r["verdict"] == "unknown":
                r = solve.reach(st.full_pc())
                o.note = note + " [path feasibility judged on the quantifier-free part of the path condition]"
            o.verdict, o.backend, o.ms = r["verdict"], r["backend"], r["ms"]
            o.model = self.model_input(r["model"]) if r.get("model") is not None else None
            if o.verdict != "unsat":
                self.degraded = True
        else:
            # once something in this function failed, later obligations get a short budget (they are often
            # consequences of the same defect and only cost time); verdicts stay sat/unsat/unknown
            r = solve.prove(st.full_pc(), goal, 2000 if self.degraded else self.timeout_ms, external=not self.degraded)
            # (no "patient retry": budgets are deterministic resource limits, a second try with the same seed would only be a
            # larger budget - the budget itself is sized for that)
            if r["verdict"] != "unsat":
                self.degraded = True
            o.verdict, o.backend, o.ms = r["verdict"], r["backend"], r["ms"]
            o.model = self.model_input(r["model"]) if r.get("model") is not None else None
            if o.verdict == "unknown":
                o.note += " [solver: %s]" % r.get("reason", "")
        o.trace = list(st.trace[-12:])
        self.obligations.append(o)
        st.assume(goal, derived=(o.verdict == "unsat"))  # assume-after-assert: one failure does not cascade

    def oblige_isolated(self, st, kind, node, hyps, goal, note):
        """An obligation whose only hypotheses are `hyps` (not the path condition); goal is assumed on the state afterwards."""
        line = getattr(node, "lineno", self.cur_line)
        self.counter[kind] = self.counter.get(kind, 0) + 1
        o = Obligation()
        o.func, o.kind, o.line, o.note = self.qname, kind, line, note
        o.name = "%s/%s#%d@L%d" % (self.qname, kind, self.counter[kind], line)
        r = solve.prove(list(hyps), goal, self.timeout_ms, external=True)
        o.verdict, o.backend, o.ms, o.model = r["verdict"], r["backend"] + " (isolated)", r["ms"], None
        if o.verdict == "unknown":
            o.note += " [solver: %s]" % r.get("reason", "")
        if o.verdict != "unsat":
            self.degraded = True
        o.trace = list(st.trace[-12:])
        self.obligations.append(o)
        st.assume(goal, derived=(o.verdict == "unsat"))

    def model_input(self, model):
        """Concrete values of the function's parameters in the counter-model (bounded read-out)."""
        out = {}
        for name, v in self.entry_params.items():
            try:
                out[name] = self.concretize(model, v, self.entry_state)
            except Exception as e:  # pragma: no cover
                out[name] = "<%s>" % e
        for name, t in self.sym_consts.items():
            out[name] = self.concretize(model, t, self.entry_state)
        return out

    def concretize(self, model, v, st, cap=12):
        def ev(t):
            r = model.eval(t, model_completion=True)
            if z3.is_int_value(r):
                return r.as_long()
            if z3.is_rational_value(r):
                return float(r.numerator_as_long()) / float(r.denominator_as_long())
            if z3.is_true(r):
                return True
            if z3.is_false(r):
                return False
            return str(r)
        if isinstance(v, Sc):
            return ev(v.t)
        if isinstance(v, NoneV):
            return None
        if isinstance(v, Tup):
            items = [self.concretize(model, x, st, cap) for x in v.items]
            return dict(zip(v.names, items)) if v.names else items
        if isinstance(v, Ref):
            o = st.obj(v)
            if isinstance(o, (HArr, HStr)):
                n = ev(o.n)
                n = n if isinstance(n, int) else 0
                return [ev(z3.Select(o.a, i)) for i in range(min(n, cap))] + (["...(len %d)" % n] if n > cap else [])
            if isinstance(o, HArr2):
                n, m = ev(o.n), ev(o.m)
                return [[ev(z3.Select(z3.Select(o.a, i), j)) for j in range(min(m, cap))] for i in range(min(n, cap))]
            if isinstance(o, (HListArr, HListStr)):
                n = ev(o.n)
                res = []
                for i in range(min(n, 6)):
                    ln = ev(z3.Select(o.lens, i))
                    res.append([ev(z3.Select(z3.Select(o.a, i), j)) for j in range(min(ln, cap))])
                return res
            if isinstance(o, HListTup):
                n = ev(o.n)
                return [[ev(z3.Select(c, i)) for c in o.cols] for i in range(min(n, cap))]
            if isinstance(o, HDict):
                return {"<dict size>": ev(o.size)}
        return "<%s>" % type(v).__name__

    def aggregate_canaries(self):
        """A program point is vacuous only if it is unreachable on every path that got there (a loop body may well be
        dead on one path, e.g. an alias case with an empty operand)."""
        agg = {}
        for w, l, r in self.canaries:
            k = (w, l)
            agg[k] = agg.get(k, False) or bool(r)
        return [dict(what=w, line=l, reachable=r) for (w, l), r in agg.items()]

    def heap_terms(self, st, v, seen=None):
        """All z3 terms that make up the (deep) contents of a value - for the frame condition."""
        seen = set() if seen is None else seen
        if isinstance(v, Tup):
            return [t for x in v.items for t in self.heap_terms(st, x, seen)]
        if isinstance(v, View):
            v = Ref(v.ref)
        if not isinstance(v, Ref) or v.ref in seen or v.ref not in st.heap:
            return []
        seen.add(v.ref)
        out = []
        for name, x in sorted(vars(st.obj(v)).items()):
            if name in ("origin",):
                continue
            for y in (x if isinstance(x, (list, tuple)) else [x]):
                if isinstance(y, z3.ExprRef):
                    out.append(y)
        return out

    def frame_obligations(self, st, fdef):
        """Frame: an object passed in and not listed under `modifies` has the same contents at exit as at entry (callers rely on
        exactly that: they keep what they know about every argument the contract does not declare modified)."""
        mods = {m.split(".")[0].split("[")[0] for m in self.contract.get("modifies", [])}
        for pn, pv in self.entry_params.items():
            if pn in mods:
                continue
            try:
                t0, t1 = self.heap_terms(self.entry_state, pv), self.heap_terms(st, pv)
            except Exception:   # pragma: no cover
                continue
            if not t0 or len(t0) != len(t1):
                continue
            if all(a.eq(b) for a, b in zip(t0, t1)):
                continue   # syntactically untouched: nothing to prove
            goal = z3.And(*[a == b for a, b in zip(t0, t1) if not a.eq(b)])
            self.oblige(st, "frame", fdef, goal, "frame: parameter '%s' is not declared in `modifies` and must be unchanged at exit" % pn)

    def verify_lemmas(self, qn, t0):
        """The lemma library as a pseudo-function: induction proofs of the lemmas the contracts invoke (pyvc/lemmas.py)."""
        from . import lemmas
        obs = []
        for i, (name, note, verdict, secs) in enumerate(lemmas.obligations(self.timeout_ms or 20000)):
            o = Obligation()
            o.func, o.kind, o.line, o.note = qn, "lemma-proof", 0, "%s: %s" % (name, note)
            o.name = "%s/lemma-proof#%d@%s" % (qn, i + 1, name)
            o.verdict, o.backend, o.ms, o.model, o.trace = verdict, "z3-api(induction step)", secs * 1000.0, None, []
            obs.append(o)
        trusted = ["induction scheme over the naturals (base + step imply the lemma for every n) applied by the generator"]
        if (self.timeout_ms or 0) >= 100000:
            # thorough tier: the permutation lemma (stated on the z3 side) is checked by Lean 4 + Mathlib
            import subprocess
            t1 = time.time()
            try:
                pr = subprocess.run(["lean", os.path.join(os.path.dirname(os.path.dirname(os.path.abspath(__file__))), "lean", "KsumPerm.lean")],
                                    capture_output=True, text=True, timeout=3600)
                ok = pr.returncode == 0 and "error" not in pr.stdout and "sorry" not in pr.stdout
                out = (pr.stdout + pr.stderr).strip()[-300:]
            except Exception as e:   # pragma: no cover
                ok, out = False, str(e)
            o = Obligation()
            o.func, o.kind, o.line = qn, "lemma-proof", 0
            o.note = "ksum_perm: Lean 4 proof lean/KsumPerm.lean (%s)" % out.replace("\n", " ")
            o.name = "%s/lemma-proof#%d@ksum_perm[lean]" % (qn, len(obs) + 1)
            o.verdict, o.backend, o.ms, o.model, o.trace = ("unsat" if ok else "unknown"), "lean-4.33.0+mathlib", (time.time() - t1) * 1000.0, None, []
            obs.append(o)
            trusted.append("correspondence between the Lean statement of ksum_perm and the z3 formula (read, not machine-checked)")
        else:
            trusted.append("ksum_perm (permutation invariance of keyed sums): stated; its Lean proof is checked by the thorough tier only")
        return dict(function=qn, variant=None, error=None, obligations=[o.as_dict() for o in obs], canaries=[],
                    trusted=trusted,
                    inlined=[], used_contracts=[], loops_cut=[], paths=0, wall_s=round(time.time() - t0, 3), source_sha="lemmas", lines=[0, 0])

    # ------------------------------------------------------------ verification of one function
    def verify(self, qn, variant=None):
        """Returns dict(function, obligations[...], canaries, trusted, inlined, used_contracts, wall_s, error)."""
        t0 = time.time()
        solve.reset_state()
        self.qname = qn
        self.fname = qn
        if qn.startswith("lemma::"):
            return self.verify_lemmas(qn, t0)
        self.contract = dict(self.contracts[qn])
        if variant:
            key = "locals" if self.contract.get("segment") else "params"
            self.contract[key] = dict(self.contract[key], **variant)
        self.obligations, self.counter, self.canaries = [], {}, []
        self.trusted, self.inlined, self.used_contracts = set(), set(), set()
        self.lemmas_used = set()
        self.ufuncs, self.recfuns, self.call_count = {}, {}, {}
        self.loops_cut, self.raise_paths = [], []
        self.spec, self.assuming, self.fsafe = False, False, bool(self.contract.get("fsafe"))
        self.npaths, self.cur_line = 0, 0
        self.ghost_after_map = {}
        self.degraded = False
        self.segment_loop_id = None
        self.sym_consts = {}
        self.abstract_macros = set(self.contract.get("abstract_macros") or [])
        res = dict(function=qn, variant=variant, error=None)
        try:
            mod, fdef = self.lookup_function(qn)
            self.mod = mod
            self.loop_keys = self.number_loops(fdef)
            self.ghost_after_map = self.anchor_ghost(fdef, self.contract.get("ghost_after") or [])
            res["source_sha"] = hashlib.sha256(ast.unparse(fdef).encode()).hexdigest()[:16]
            res["lines"] = [fdef.lineno, fdef.end_lineno]
            st = State()
            for nm, desc in (self.contract.get("symbolic_consts") or {}).items():
                ty, *conds = [x.strip() for x in desc.split(";")]
                self.sym_consts[nm] = self.make_value(ty, st, "C_" + nm)
            names = [p.arg for p in fdef.args.posonlyargs + fdef.args.args + fdef.args.kwonlyargs]
            ptypes = self.contract.get("params", {})
            body = fdef.body
            if self.contract.get("segment"):
                # a mechanically extracted statement range of a larger function, verified under stated assumptions on its live-in locals
                body = self.extract_segment(fdef, self.contract["segment"])
                if self.contract["segment"].get("keep"):
                    body = self.slice_stmts(body, set(self.contract["segment"]["keep"]))
                self.segment_loop_id = id(next((b for b in body if isinstance(b, (ast.For, ast.While))), body[0]))   # '@segment' = the segment's (first) loop
                names = list(self.contract.get("locals", {}))
                ptypes = self.contract.get("locals", {})
                res["segment_lines"] = [body[0].lineno, body[-1].end_lineno]
                res["source_sha"] = hashlib.sha256("\n".join(ast.unparse(b) for b in body).encode()).hexdigest()[:16]
            self.entry_params = {}
            for nm in names:
                if nm not in ptypes:
                    raise VCError("contract of %s gives no type for parameter %s" % (qn, nm))
                v = self.make_value(ptypes[nm], st, "p_" + nm)
                st.bind(nm, v)
                self.entry_params[nm] = v
            for nm, ty in (self.contract.get("ghost_params") or {}).items():
                if ty.startswith("fn("):
                    dom, rng = ty[3:].split(")->")
                    fd = z3.Function("g_%s!%d" % (nm, fresh_id()), *([SORTS[d.strip()] for d in dom.split(",")] + [SORTS[rng.strip()]]))
                    st.ghost[nm] = fd
                else:
                    st.bind(nm, self.make_value(ty, st, "g_" + nm))
            for nm, desc in (self.contract.get("symbolic_consts") or {}).items():
                for c in desc.split(";")[1:]:
                    st.assume(self.spec_bool(c, st, assume=True))
            for r in self.contract.get("requires", []):
                st.assume(self.spec_bool(r, st, assume=True))
            for r in self.contract.get("assumed_requires", []):
                st.assume(self.spec_bool(r, st, assume=True))
                self.trust("ASSUMED precondition of %s (not checked at call sites): %s" % (qn.split("::")[-1], r))
            for lm in self.contract.get("lemmas", []):
                st.assume(self.spec_bool(lm, st, assume=True))
            self.entry_state = st.snapshot()
            st.old = self.entry_state
            self.canaries.append(("precondition satisfiable", fdef.lineno, solve.feasible(st.pc, 500, full=True)))
            self.run_ghost(self.contract.get("ghost_init"), st)
            outs = self.exec_block(body, st)
            n_ret = 0
            reach = []
            for kind, s2, v in outs:
                if kind == "raise":
                    allowed = self.contract.get("may_raise", [])
                    if v not in allowed:
                        self.cur_line = fdef.lineno
                        self.oblige(s2, "raise", fdef, z3.BoolVal(False), "explicit raise %s reachable under the precondition" % v)
                    continue
                n_ret += 1
                result = v if kind == "return" else NONE
                s2.ghost["result"] = result
                self.run_ghost(self.contract.get("ghost_exit"), s2)
                # in postconditions a parameter name denotes the object passed in (python rebinding of the
                # local name inside the body is not visible to the caller); its contents are the current ones
                if not self.contract.get("segment"):
                    for pn, pv in self.entry_params.items():
                        s2.vars[pn] = (pv, True)
                s2.vars["result"] = (result, True)  # a local variable called `result` must not shadow the returned value
                for i, e in enumerate(list(self.contract.get("ensures", [])) + list(self.contract.get("ensures_ghost", []))):
                    self.oblige(s2, "post", fdef, self.spec_bool(e, s2), "postcondition #%d: %s" % (i + 1, e))
                if not self.contract.get("segment"):
                    self.frame_obligations(s2, fdef)
                if not any(reach):   # one reachable exit is enough for the vacuity guard
                    reach.append(solve.feasible(s2.pc, 200, full=True))
            # vacuity guard: some normal exit must be reachable (only meaningful if nothing failed)
            if all(o.verdict == "unsat" for o in self.obligations):
                self.canaries.append(("some return path reachable", fdef.lineno, any(reach)))
        except VCError as e:
            res["error"] = "unsupported/checker: %s" % e
        except z3.Z3Exception as e:
            res["error"] = "z3 exception: %s" % e
        res.update(
            obligations=[o.as_dict() for o in self.obligations],
            canaries=self.aggregate_canaries(),
            trusted=sorted(self.trusted), inlined=sorted(self.inlined), used_contracts=sorted(self.used_contracts),
            loops_cut=list(self.loops_cut), paths=self.npaths, wall_s=round(time.time() - t0, 3),
            solver=dict(solve.STATS),
        )
        return res
