"""Symbolic values and heap objects of pyvc."""
import itertools
import z3

_ctr = itertools.count()


FRESH_LOG = None  # when a list is installed here, every fresh constant is recorded (comprehension skolemisation)


def fresh(prefix, sort):
    c = z3.Const("%s!%d" % (prefix, next(_ctr)), sort)
    if FRESH_LOG is not None:
        FRESH_LOG.append(c)
    return c


def fresh_func(prefix, *sorts):
    """A fresh uninterpreted function (witness / permutation / ghost).  Not skolemisable: marks the log."""
    if FRESH_LOG is not None:
        FRESH_LOG.append(None)
    return z3.Function("%s!%d" % (prefix, next(_ctr)), *sorts)


def start_fresh_log():
    global FRESH_LOG
    old = FRESH_LOG
    FRESH_LOG = []
    return old


def stop_fresh_log(old):
    global FRESH_LOG
    log = FRESH_LOG
    FRESH_LOG = old
    if old is not None:
        old.extend(log)
    return log


def fresh_id():
    return next(_ctr)


INT, REAL, BOOL = z3.IntSort(), z3.RealSort(), z3.BoolSort()
SORTS = {"int": INT, "real": REAL, "bool": BOOL}


class VCError(Exception):
    """Unsupported construct / checker error (exit 3), never a verdict."""


class Val:
    pass


class Sc(Val):
    """Scalar: kind in int/real/bool, t a z3 term."""

    def __init__(self, kind, t):
        self.kind, self.t = kind, t

    def __repr__(self):
        return "Sc(%s,%s)" % (self.kind, self.t)


class NoneV(Val):
    def __repr__(self):
        return "None"


NONE = NoneV()


class Tup(Val):
    def __init__(self, items, names=None, tname=None):
        self.items, self.names, self.tname = list(items), names, tname

    def __repr__(self):
        return "Tup%r" % (self.items,)


class Ref(Val):
    """Reference to a heap object."""

    def __init__(self, ref):
        self.ref = ref

    def __repr__(self):
        return "Ref(%d)" % self.ref


class View(Val):
    """numpy basic-slice view: element k is base[start + k*step], 0<=k<n."""

    def __init__(self, ref, start, step, n):
        self.ref, self.start, self.step, self.n = ref, start, step, n


class StrC(Val):
    def __init__(self, s):
        self.s = s

    def __repr__(self):
        return "StrC(%r)" % self.s


class Fn(Val):
    """A callable: qualified repo function, library name or parameter."""

    def __init__(self, name, kind="repo"):
        self.name, self.kind = name, kind


class Opaque(Val):
    """A value only passed around (dtype objects, modules...)."""

    def __init__(self, tag):
        self.tag = tag

    def __repr__(self):
        return "Opaque(%s)" % self.tag


class Mat(Val):
    """An element of an uninterpreted matrix ring (sparse / dense matrices whose entries are not modelled)."""

    def __init__(self, t):
        self.t = t

    def __repr__(self):
        return "Mat(%s)" % self.t


MAT = z3.DeclareSort("Mat")
M_SMUL = z3.Function("mat_smul", MAT, z3.RealSort(), MAT)
M_MUL = z3.Function("mat_mul", MAT, MAT, MAT)
M_ADD = z3.Function("mat_add", MAT, MAT, MAT)


class Undef(Val):
    """Placeholder for a variable that is certainly unbound."""


# ---------------------------------------------------------------- heap objects


class HArr:
    """1-D array or list of scalars. a : Array(Int -> sort), n : Int."""

    def __init__(self, kind, a, n, is_list=False, origin=None):
        self.kind, self.a, self.n, self.is_list = kind, a, n, is_list
        self.origin = origin  # (list_ref, index term) when copied out of a list

    def clone(self):
        return HArr(self.kind, self.a, self.n, self.is_list, self.origin)


class HArr2:
    """2-D array. a : Array(Int -> Array(Int -> sort)), n rows, m cols."""

    def __init__(self, kind, a, n, m):
        self.kind, self.a, self.n, self.m = kind, a, n, m

    def clone(self):
        return HArr2(self.kind, self.a, self.n, self.m)


class HListArr:
    """list (or typed list) of 1-D arrays: a[k] contents, lens[k] length."""

    def __init__(self, kind, a, lens, n):
        self.kind, self.a, self.lens, self.n = kind, a, lens, n

    def clone(self):
        return HListArr(self.kind, self.a, self.lens, self.n)


class HListArr2:
    """list of 2-D arrays with a common number of columns m: a[k] rows of item k, lens[k] its number of rows."""

    def __init__(self, kind, a, lens, n, m):
        self.kind, self.a, self.lens, self.n, self.m = kind, a, lens, n, m

    def clone(self):
        return HListArr2(self.kind, self.a, self.lens, self.n, self.m)


class HListTup:
    """list of fixed-arity tuples of scalars; cols[j] : Array(Int -> sort)."""

    def __init__(self, kinds, cols, n, names=None):
        self.kinds, self.cols, self.n, self.names = list(kinds), list(cols), n, names

    def clone(self):
        return HListTup(self.kinds, self.cols, self.n, self.names)


class HListStruct:
    """list of named tuples whose fields are 1-D arrays (e.g. a list of CooArray): one HListArr-like pair per field."""

    def __init__(self, names, kinds, arrs, lens, n, tname=None):
        self.names, self.kinds, self.arrs, self.lens, self.n, self.tname = list(names), list(kinds), list(arrs), list(lens), n, tname

    def clone(self):
        return HListStruct(self.names, self.kinds, self.arrs, self.lens, self.n, self.tname)


class HDict:
    """dict: dom : Array(K -> Bool), val : Array(K -> V), size : Int."""

    def __init__(self, ksort, vkind, dom, val, size, kdesc="int"):
        self.ksort, self.vkind, self.dom, self.val, self.size = ksort, vkind, dom, val, size
        self.kdesc = kdesc

    def clone(self):
        return HDict(self.ksort, self.vkind, self.dom, self.val, self.size, self.kdesc)


class HSet:
    def __init__(self, ksort, dom, size, kdesc="int"):
        self.ksort, self.dom, self.size, self.kdesc = ksort, dom, size, kdesc

    def clone(self):
        return HSet(self.ksort, self.dom, self.size, self.kdesc)


class HStr:
    """A string as codes: a : Array(Int -> Int), n length; sid identifies it."""

    def __init__(self, a, n):
        self.a, self.n = a, n
        self.kind = "int"

    def clone(self):
        return HStr(self.a, self.n)


class HListStr:
    def __init__(self, a, lens, n):
        self.a, self.lens, self.n = a, lens, n

    def clone(self):
        return HListStr(self.a, self.lens, self.n)


PAIR = z3.TupleSort("Pair", [INT, INT])  # (sort, mk, [acc0, acc1])
PAIR_SORT, PAIR_MK, PAIR_ACC = PAIR


def arr_sort(kind):
    return z3.ArraySort(INT, SORTS[kind])


def new_arr(kind, prefix="arr", n=None, is_list=False):
    return HArr(kind, fresh(prefix, arr_sort(kind)), n if n is not None else fresh(prefix + "_n", INT), is_list)


def to_real(v):
    if v.kind == "real":
        return v.t
    if v.kind == "int":
        return z3.ToReal(v.t)
    if v.kind == "bool":
        return z3.If(v.t, z3.RealVal(1), z3.RealVal(0))
    raise VCError("to_real of %r" % v)


def to_int(v):
    if v.kind == "int":
        return v.t
    if v.kind == "bool":
        return z3.If(v.t, z3.IntVal(1), z3.IntVal(0))
    raise VCError("to_int of %r" % v)


def truth(v):
    """Python truthiness of a scalar."""
    if isinstance(v, Sc):
        if v.kind == "bool":
            return v.t
        if v.kind == "int":
            return v.t != 0
        return v.t != 0
    if isinstance(v, NoneV):
        return z3.BoolVal(False)
    raise VCError("truth value of %r" % (v,))


def _pat_ok(p):
    if z3.is_app(p) and p.decl().kind() == z3.Z3_OP_UNINTERPRETED and p.num_args() == 0:
        return False
    s = p.sexpr()
    return "(ite " not in s and "(lambda " not in s


def qall(vs, body, pats=None):
    """ForAll with patterns when they are legal, without otherwise."""
    if pats:
        ok = True
        for p in pats:
            if z3.is_app(p) and p.decl().kind() == z3.Z3_OP_UNINTERPRETED and p.decl().name() == "":
                ok = False
            try:
                ok = ok and _pat_ok(p)
            except Exception:
                ok = False
        if ok:
            try:
                return z3.ForAll(vs, body, patterns=pats)
            except z3.Z3Exception:
                pass
    return z3.ForAll(vs, body)
