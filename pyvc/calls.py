"""Calls: library models (trusted contracts), repo functions by contract or inlined."""
import ast
import z3
from .values import *  # noqa
from .expr import zint, ite, zmax, zmin, is_true, is_false, py_floordiv, py_mod
from . import solve


def dtype_kind(node, default="real"):
    if node is None:
        return default
    s = ast.unparse(node)
    if "bool" in s:
        return "bool"
    if "int" in s:
        return "int"
    if "float" in s or "double" in s:
        return "real"
    return None  # symbolic dtype (parameter)


class CallMixin:
    # ------------------------------------------------------------ plumbing
    def ufunc(self, name, dom, rng):
        key = (name, tuple(str(d) for d in dom), str(rng))
        if key not in self.ufuncs:
            self.ufuncs[key] = z3.Function(name, *(list(dom) + [rng]))
        return self.ufuncs[key]

    def trust(self, what):
        self.trusted.add(what)

    def e_Call(self, node, st):
        outs = self.call_stmt(node, st, nested=True)
        if len(outs) != 1:
            raise VCError("call forks inside an expression at line %d: %s" % (node.lineno, ast.unparse(node)[:60]))
        s2, v = outs[0]
        if s2 is not st:
            raise VCError("internal: nested call changed state object at line %d" % node.lineno)
        return v

    def call_stmt(self, node, st, nested=False):
        """Returns list of (state, value)."""
        f = node.func
        if isinstance(f, ast.Name):
            nm = f.id
            if nm in st.vars:
                fv = st.vars[nm][0]
                if isinstance(fv, Fn):
                    return self.call_fn(fv, node, st, nested)
                raise VCError("call of non-function variable %s at line %d" % (nm, node.lineno))
            if self.spec and nm in self.abstract_macros:
                return [(st, self.spec_abstract(nm, node, st))]
            if self.spec and nm in self.SPEC_FUNCS:
                return [(st, getattr(self, "spec_" + nm)(node, st))]
            if self.spec and nm in st.ghost and isinstance(st.ghost[nm], z3.FuncDeclRef):
                args = [self.eval(a, st) for a in node.args]
                fd = st.ghost[nm]
                r = fd(*[z3.ToInt(a.t) if a.kind == "real" else to_int(a) for a in args])
                return [(st, Sc("bool" if fd.range() == BOOL else ("real" if fd.range() == REAL else "int"), r))]
            b = getattr(self, "b_" + nm, None)
            if b is not None:
                return [(st, b(node, st))]
            ext = self.contracts.get("external::" + nm)
            if ext is not None and nm not in self.mod.funcs:
                # a function of a third-party package, used through its stated (trusted) contract
                args, kwargs = self.eval_args(node, st)
                params = dict(zip(ext["param_names"], args))
                params.update(kwargs)
                if ext.get("verified_by"):
                    # the dependency's installed source is itself under contract: same clauses, verified as its own function
                    vb = self.contracts.get(ext["verified_by"])
                    if vb is None or vb.get("trusted") or any(vb.get(k) != ext.get(k) for k in ("requires", "ensures", "returns")):
                        raise VCError("external::%s: verified_by entry missing or its clauses differ" % nm)
                    self.trust("external function %s: call sites bind `%s` to the installed %s (import resolution not verified)" % (nm, nm, ext.get("source", "?")))
                else:
                    self.trust("external function %s used by stated contract (source: %s)" % (nm, ext.get("source", "?")))
                return self.apply_contract("external::" + nm, ext, params, node, st)
            fv = self.global_name(nm, node, st)
            if isinstance(fv, Fn):
                return self.call_fn(fv, node, st, nested)
            raise VCError("call of %s at line %d" % (nm, node.lineno))
        if isinstance(f, ast.Attribute):
            # module function?
            if isinstance(f.value, ast.Name) and f.value.id not in st.vars:
                g = self.global_attr(f.value.id, f.attr)
                if isinstance(g, Fn):
                    return self.call_fn(g, node, st, nested)
            if isinstance(f.value, ast.Attribute) and ast.unparse(f.value) in ("numba.typed", "np.random", "np.linalg", "scipy.sparse"):
                return self.call_fn(Fn(ast.unparse(f), "lib"), node, st, nested)
            recv = self.eval(f.value, st)
            if isinstance(recv, Opaque):
                return self.call_fn(Fn("%s.%s" % (recv.tag, f.attr), "lib"), node, st, nested)
            m = getattr(self, "m_" + f.attr, None)
            if m is None:
                raise VCError("method .%s at line %d" % (f.attr, node.lineno))
            return [(st, m(recv, node, st))]
        if isinstance(f, ast.Subscript):
            fv = self.eval(f, st)
            if isinstance(fv, Fn):
                return self.call_fn(fv, node, st, nested)
        raise VCError("call form at line %d: %s" % (node.lineno, ast.unparse(node)[:60]))

    def call_fn(self, fv, node, st, nested):
        if fv.kind == "lib":
            h = getattr(self, "l_" + fv.name.replace(".", "_"), None)
            if h is None:
                raise VCError("no model for library function %s at line %d" % (fv.name, node.lineno))
            self.trust("library contract: " + fv.name)
            return [(st, h(node, st))]
        if fv.kind == "param":
            return [(st, self.call_param_fn(fv, node, st))]
        if fv.kind == "namedtuple":
            fields = fv.fields
            args = [self.eval(a, st) for a in node.args]
            return [(st, Tup(args, list(fields), fv.name))]
        return self.call_repo(fv, node, st, nested)

    def eval_args(self, node, st):
        args = []
        for a in node.args:
            if isinstance(a, ast.Starred):
                v = self.eval(a.value, st)
                if isinstance(v, Opaque):
                    continue  # opaque extra arguments passed through to a function parameter
                if not isinstance(v, Tup):
                    raise VCError("*args of non-tuple at line %d" % node.lineno)
                args.extend(v.items)
            else:
                args.append(self.eval(a, st))
        kwargs = {k.arg: self.eval(k.value, st) for k in node.keywords if k.arg}
        return args, kwargs

    def bind_params(self, fdef, args, kwargs, mod, node):
        """param name -> Val using python's binding rules; defaults evaluated as constants."""
        a = fdef.args
        names = [p.arg for p in a.posonlyargs + a.args]
        out = {}
        if len(args) > len(names) and not a.vararg:
            raise VCError("too many arguments calling %s at line %d" % (fdef.name, node.lineno))
        for nm, v in zip(names, args):
            out[nm] = v
        if a.vararg:
            out[a.vararg.arg] = Tup(args[len(names):])
        for k, v in kwargs.items():
            out[k] = v
        defaults = a.defaults
        for nm, dnode in zip(names[len(names) - len(defaults):], defaults):
            if nm not in out:
                out[nm] = self.const_eval(dnode, mod)
        for p, dnode in zip(a.kwonlyargs, a.kw_defaults):
            if p.arg not in out and dnode is not None:
                out[p.arg] = self.const_eval(dnode, mod)
        missing = [nm for nm in names if nm not in out]
        if missing:
            raise VCError("missing arguments %s calling %s at line %d" % (missing, fdef.name, node.lineno))
        return out

    def const_eval(self, dnode, mod):
        st = self.State()
        saved = self.mod
        self.mod = mod
        try:
            return self.eval(dnode, st)
        finally:
            self.mod = saved

    def call_repo(self, fv, node, st, nested):
        qn = fv.name  # "path::func"
        args, kwargs = self.eval_args(node, st)
        mod, fdef = self.lookup_function(qn)
        params = self.bind_params(fdef, args, kwargs, mod, node)
        c = self.contracts.get(qn)
        if qn.split("::")[-1] in (self.contract.get("inline_calls") or []):
            return self.inline_call(qn, mod, fdef, params, node, st, nested)
        if c is not None and qn != self.qname or (c is not None and c.get("recursive")):
            return self.apply_contract(qn, c, params, node, st)
        if c is None and self.has_loops(fdef) and qn not in self.inline_ok:
            raise VCError("call to %s (has loops, no contract) at line %d" % (qn, node.lineno))
        return self.inline_call(qn, mod, fdef, params, node, st, nested)

    def has_loops(self, fdef):
        return any(isinstance(n, (ast.For, ast.While)) for n in ast.walk(fdef))

    def inline_call(self, qn, mod, fdef, params, node, st, nested):
        self.inlined.add(qn)
        saved_vars, saved_mod, saved_fname = st.vars, self.mod, self.fname
        inner = st.fork() if nested else st
        inner.vars = {k: (v, True) for k, v in params.items()}
        self.mod = mod
        keys_saved = self.loop_keys
        self.loop_keys = self.number_loops(fdef)
        csaved = self.contract
        self.contract = self.contracts.get(qn) or {}
        try:
            outs = self.exec_block(fdef.body, inner)
        finally:
            self.mod, self.fname, self.loop_keys, self.contract = saved_mod, saved_fname, keys_saved, csaved
        res = []
        for kind, s2, v in outs:
            if kind == "raise":
                self.raise_paths.append((qn, v, getattr(node, "lineno", 0)))
                continue  # exception propagates out of the function under verification: path ends
            val = v if kind == "return" else NONE
            res.append((s2, val))
        if not nested:
            for s2, _ in res:
                s2.vars = dict(saved_vars)
            return res
        # nested: merge into one value, no heap effects allowed
        if not res:
            raise VCError("nested call to %s never returns at line %d" % (qn, node.lineno))
        for s2, _ in res:
            if any(s2.heap.get(r) is not o for r, o in st.heap.items()):
                raise VCError("nested inlined call to %s mutates the heap at line %d" % (qn, node.lineno))
        base = len(st.pc)
        val = res[-1][1]
        for s2, v in reversed(res[:-1]):
            cond = z3.And(*s2.pc[base:]) if len(s2.pc) > base else z3.BoolVal(True)
            val = self.merge_vals(cond, v, val, node)
        # new heap objects allocated by the callee (fresh arrays) are kept when there is a single path
        if len(res) == 1:
            for r, o in res[0][0].heap.items():
                st.heap.setdefault(r, o)
            st.pc.extend(res[0][0].pc[base:])
        return [(st, val)]

    # ------------------------------------------------------------ contracts at call sites
    def apply_contract(self, qn, c, params, node, st):
        self.used_contracts.add(qn)
        if c.get("trusted"):
            self.trust("assumed contract (not proved here): " + qn)
        caller_vars = st.vars
        n_call = self.call_count.get(qn, 0) + 1
        self.call_count[qn] = n_call
        short = qn.split("::")[-1].replace(".", "_")
        gprefix = short if n_call == 1 else "%s%d" % (short, n_call)
        try:
            st.vars = {k: (v, True) for k, v in params.items()}
            # ghost parameters of the callee are universally quantified: instantiated with the caller's ghost value of the same
            # name where there is one (the caller's proof is about that value), with a fresh value otherwise
            for gn, gty in (c.get("ghost_params") or {}).items():
                if gty.startswith("fn("):
                    if gn not in st.ghost:
                        dom, rng = gty[3:].split(")->")
                        st.ghost[gn] = fresh_func("g_" + gn, *([SORTS[d.strip()] for d in dom.split(",")] + [SORTS[rng.strip()]]))
                elif gn in caller_vars:
                    st.vars[gn] = caller_vars[gn]
                else:
                    st.vars[gn] = (self.make_value(gty, st, "g_" + gn), True)
            for i, r in enumerate(c.get("requires", [])):
                self.oblige(st, "pre", node, self.spec_bool(r, st), "precondition #%d of %s: %s" % (i + 1, short, r))
            old = st.snapshot()
            # frame: havoc what the callee may modify
            for m in c.get("modifies", []):
                v = self.spec_val(m, st)
                self.havoc_val(st, v, True)
            outs = []
            alias_cases = c.get("returns_alias") or []
            cases = []
            rest = []
            for cond, target in alias_cases:
                ct = self.spec_bool(cond, old_state_vars(st, old))
                cases.append((z3.And(*(rest + [ct])), target))
                rest.append(z3.Not(ct))
            cases.append((z3.And(*rest) if rest else z3.BoolVal(True), None))
            for cond, target in cases:
                s2 = st if len(cases) == 1 else st.fork()
                s2.assume(cond)
                if len(cases) > 1 and not solve.feasible(s2.pc):
                    continue
                if target is not None:
                    res = self.spec_val(target, s2)
                else:
                    res = self.make_value(c.get("returns", "none"), s2, "ret_" + short)
                    res = self.share_result(res, c, s2)
                s2.ghost = dict(s2.ghost)
                saved_res, saved_old = s2.ghost.get("result"), s2.old
                s2.ghost["result"] = res
                s2.old = old
                for gname, (gdom, grng) in (c.get("ghost_out") or {}).items():
                    fd = fresh_func("%s_%s" % (gprefix, gname), *([SORTS[d] for d in gdom] + [SORTS[grng]]))
                    s2.ghost[gname] = fd
                    s2.ghost["%s_%s" % (gprefix, gname)] = fd
                for e in c.get("ensures", []):
                    et = self.spec_bool(e, s2, assume=True)
                    if z3.is_false(z3.simplify(et)):
                        # assuming it would make everything after the call vacuously provable
                        raise VCError("postcondition of %s is literally false at the call on line %d: %s" % (short, node.lineno, e))
                    s2.assume(et)
                self.canary(s2, node, "state after call of %s" % short, full=False)
                for gname in (c.get("ghost_out") or {}):
                    s2.ghost.pop(gname, None)
                s2.old = saved_old
                if saved_res is not None:
                    s2.ghost["result"] = saved_res
                else:
                    s2.ghost.pop("result", None)
                outs.append((s2, res))
            for s2, _ in outs:
                s2.vars = dict(caller_vars)
            if not outs:
                raise VCError("no feasible return case for %s at line %d" % (qn, node.lineno))
            return outs
        finally:
            st.vars = caller_vars

    def share_result(self, res, c, st):
        """A postcondition conjunct same(result<path>, <expression over the parameters>) says that (a component of) the returned
        value IS an object that was passed in: build the result that way instead of from fresh objects."""
        def conjuncts(n):
            if isinstance(n, ast.BoolOp) and isinstance(n.op, ast.And):
                for v in n.values:
                    yield from conjuncts(v)
            else:
                yield n
        for e in c.get("ensures", []):
            for cj in conjuncts(self.parse_spec(e)):
                if not (isinstance(cj, ast.Call) and isinstance(cj.func, ast.Name) and cj.func.id == "same" and len(cj.args) == 2):
                    continue
                a, b = cj.args
                path = []
                node = a
                while isinstance(node, (ast.Attribute, ast.Subscript)):
                    path.append(node.attr if isinstance(node, ast.Attribute) else node.slice.value if isinstance(node.slice, ast.Constant) else None)
                    node = node.value
                if not (isinstance(node, ast.Name) and node.id == "result") or None in path:
                    continue
                target = self.spec_val(ast.unparse(b), st)
                res = self._replace_at(res, list(reversed(path)), target)
        return res

    def _replace_at(self, v, path, target):
        if not path:
            return target
        if not isinstance(v, Tup):
            raise VCError("same(result...) path into a non-tuple result")
        idx = v.names.index(path[0]) if isinstance(path[0], str) else path[0]
        items = list(v.items)
        items[idx] = self._replace_at(items[idx], path[1:], target)
        return Tup(items, v.names, v.tname)

    def call_mutates(self, call, st):
        """Argument *names* that a call may mutate (for loop havoc)."""
        out = set()
        f = call.func
        qn = None
        if isinstance(f, ast.Name) and f.id not in st.vars:
            try:
                g = self.global_name(f.id, call, st)
            except VCError:
                g = None
            if isinstance(g, Fn) and g.kind == "repo":
                qn = g.name
        if qn is None:
            return out
        c = self.contracts.get(qn)
        mod, fdef = self.lookup_function(qn)
        names = [p.arg for p in fdef.args.posonlyargs + fdef.args.args]
        if c is not None and "modifies" in c:
            mods = {m.split(".")[0].split("[")[0] for m in c["modifies"]}
        else:
            mods = self.syntactic_mutated_params(qn, fdef)
        for i, a in enumerate(call.args):
            if i < len(names) and names[i] in mods:
                r = a
                while isinstance(r, (ast.Subscript, ast.Attribute)):
                    r = r.value
                if isinstance(r, ast.Name):
                    out.add(r.id)
        for k in call.keywords:
            if k.arg in mods and isinstance(k.value, ast.Name):
                out.add(k.value.id)
        return out

    def syntactic_mutated_params(self, qn, fdef):
        if qn in self._mut_cache:
            return self._mut_cache[qn]
        self._mut_cache[qn] = set()
        names = {p.arg for p in fdef.args.posonlyargs + fdef.args.args}
        st = self.State()
        saved = self.mod
        self.mod = self.lookup_function(qn)[0]
        try:
            m = {(x[0] if isinstance(x, tuple) else x) for x in self.mutated_roots(fdef.body, st)} & names
        finally:
            self.mod = saved
        self._mut_cache[qn] = m
        return m

    def call_param_fn(self, fv, node, st):
        """A function passed as parameter: pure, total, result described by the contract's func_params."""
        desc = (self.contract.get("func_params") or {}).get(fv.name)
        if desc is None:
            raise VCError("call of function parameter %s without func_params entry at line %d" % (fv.name, node.lineno))
        args, kwargs = self.eval_args(node, st)
        if desc["returns"] == "keyfn":
            # a pure function of the *content* of its (string) argument, used as a dictionary key
            h = self.ufunc("fp_" + fv.name, [INT], INT)
            self.trust("function parameter '%s' assumed pure (a function of its argument's content)" % fv.name)
            return Opaque(("strkey", h(self.str_key(st, args[0], node))))
        res = self.make_value(desc["returns"], st, "fp_" + fv.name)
        saved = st.vars
        try:
            st.vars = dict(saved)
            for i, a in enumerate(args):
                st.vars["arg%d" % i] = (a, True)
            st.vars["ret"] = (res, True)
            saved_res = st.ghost.get("result")
            st.ghost["result"] = res
            for e in desc.get("ensures", []):
                st.assume(self.spec_bool(e, st, assume=True))
            if saved_res is not None:
                st.ghost["result"] = saved_res
            else:
                st.ghost.pop("result", None)
        finally:
            st.vars = saved
        self.trust("function parameter '%s' assumed pure with declared result shape" % fv.name)
        return res


def old_state_vars(st, old):
    return st
