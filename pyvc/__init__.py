"""pyvc - a small verification-condition generator for a subset of Python.

Reads the *real* source of functions in /repo (root overridable by VERIF_REPO)
with `ast`, executes them symbolically (loops are cut by the invariants given
in sidecar contracts under /verif/contracts), and discharges one named
obligation per subscript / maybe-unbound read / dict lookup / callee
precondition / invariant / postcondition with z3 (cvc5 and the older z3 as
fall-backs for `unknown`).  See DESIGN.md section 2.
"""
