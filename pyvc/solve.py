"""Solver back ends: z3 (python API) first, then cvc5 and /usr/bin/z3 on the
SMT-LIB text when z3 says unknown."""
import os
import subprocess
import tempfile
import time

import z3

QUICK_MS = int(os.environ.get("PYVC_TIMEOUT_MS", "15000"))
# Budgets are stated in "nominal milliseconds" and enforced as z3 RESOURCE limits (rlimit: a deterministic count of solver
# steps, about RL_PER_MS units per millisecond on an idle core of this sandbox), not as wall-clock timeouts: the same query
# then gets the same verdict whether the machine is idle or twenty checks run at once.  Wall clock is only a distant safety
# net (z3 does not always honour its limits): WALL_FACTOR x the nominal budget + WALL_SLACK seconds, after which the context
# is interrupted and the answer is `unknown` with reason "wall-clock" (never turned into a verdict about the code).
RL_PER_MS = 5000
BASE_MS = 20000   # the quick tier's per-obligation budget
WALL_FACTOR = float(os.environ.get("PYVC_WALL_FACTOR", "30"))   # (the seed re-test tool lowers both: a stuck solver on a mutant costs time, not a verdict)
WALL_SLACK = float(os.environ.get("PYVC_WALL_SLACK", "120"))
WALLCLOCK_HITS = []
DERIVED = {}   # ast id -> term: assumptions that are consequences of the others or conservative definitions (State.assume(derived=True))
STATS = dict(checks=0, seconds=0.0, rlimit_last=0)


def _mk_solver(timeout_ms):
    s = z3.Solver()
    s.set("rlimit", int(timeout_ms * RL_PER_MS))
    return s


_HASQ = {}
STATE = dict(skip_default_first=False, ematch_wins=0)


def reset_state():
    STATE.update(skip_default_first=False, ematch_wins=0)
    DERIVED.clear()
    del WALLCLOCK_HITS[:]


def has_quant(e):
    i = e.get_id()
    r = _HASQ.get(i)
    if r is not None:
        return r
    if z3.is_quantifier(e):
        r = True
    elif z3.is_app(e):
        r = any(has_quant(c) for c in e.children())
    else:
        r = False
    _HASQ[i] = r
    return r


def feasible(pc, timeout_ms=40, full=False):
    """False only if pc is certainly unsatisfiable.  By default only the quantifier-free
    conjuncts are used (an over-approximation of feasibility: sound for pruning)."""
    s = _mk_solver(timeout_ms)
    if full:
        # only `unsat` matters here (a contradictory path condition = vacuity); model-based instantiation would spend the whole
        # budget looking for a model of the quantified facts, E-matching alone finds the contradictions that matter
        s.set("smt.mbqi", False)
    for c in pc:
        if full or not has_quant(c):
            s.add(c)
    r = _guarded_check(s, timeout_ms, "feasible_full" if full else "feasible")
    if r == z3.unknown and full:
        return feasible(pc, timeout_ms, full=False)
    return r != z3.unsat


def quick_valid(pc, goal, timeout_ms=100):
    """True only if the quantifier-free part of pc certainly implies goal (cheap, used to keep terms simple)."""
    s = _mk_solver(timeout_ms)
    for c in pc:
        if not has_quant(c):
            s.add(c)
    s.add(z3.Not(goal))
    return _guarded_check(s, timeout_ms, "quick_valid") == z3.unsat


def reach(pc, timeout_ms=3000):
    """Reachability of a path on the quantifier-free part of its condition: sat (with model) / unsat / unknown."""
    t0 = time.time()
    s = _mk_solver(timeout_ms)
    for c in pc:
        if not has_quant(c):
            s.add(c)
    r = _guarded_check(s, timeout_ms)
    v = "sat" if r == z3.sat else ("unsat" if r == z3.unsat else "unknown")
    return dict(verdict=v, backend="z3-5.1.0 (reachability, quantifier-free part)", model=s.model() if r == z3.sat else None, ms=(time.time() - t0) * 1000.0)


def _external(smt2, timeout_s):
    """Try cvc5 and the distro z3 on the SMT-LIB text. Returns (verdict, backend)."""
    with tempfile.NamedTemporaryFile("w", suffix=".smt2", delete=False) as f:
        f.write(smt2)
        path = f.name
    try:
        for backend, cmd in (
            ("cvc5-1.0.3", ["/usr/bin/cvc5", "--tlimit=%d" % (timeout_s * 1000), path]),
            ("z3-4.8.12", ["/usr/bin/z3", "-T:%d" % timeout_s, path]),
        ):
            try:
                out = subprocess.run(cmd, capture_output=True, text=True, timeout=timeout_s + 5).stdout
            except Exception:
                continue
            first = out.strip().splitlines()[0] if out.strip() else ""
            if first in ("unsat", "sat"):
                return first, backend
        return "unknown", "none"
    finally:
        os.unlink(path)


def _retry(pc, goal, timeout_ms):
    """z3's quantifier instantiation is sensitive to the random seed: before giving up (and before the slower
    external solvers) retry with other seeds and with MBQI off (pure E-matching)."""
    for seed, mbqi in ((1, False), (7, True), (23, False)):
        s = _mk_solver(timeout_ms)
        s.set("random_seed", seed)
        s.set("smt.random_seed", seed)
        if not mbqi:
            s.set("smt.mbqi", False)
        for c in pc:
            s.add(c)
        s.add(z3.Not(goal))
        if s.check() == z3.unsat:
            return True
    return False


class _Stuck(Exception):
    """z3 ignored its resource limit and had to be interrupted: further stages on the same query would only burn wall clock."""


def _check(pc, goal, timeout_ms, qf_only=False, ematch=False, seed=None):
    n0 = len(WALLCLOCK_HITS)
    r, s = _check0(pc, goal, timeout_ms, qf_only, ematch, seed)
    if len(WALLCLOCK_HITS) > n0 and r == z3.unknown:
        raise _Stuck(s)
    if os.environ.get("PYVC_TRACE"):
        print("    [stage qf=%s ematch=%s seed=%s budget=%d -> %s %s]" % (qf_only, ematch, seed, timeout_ms, r, STATS.get("last_s")), flush=True)
    return r, s


def _check0(pc, goal, timeout_ms, qf_only=False, ematch=False, seed=None):
    s = _mk_solver(timeout_ms)
    if ematch:
        s.set("smt.mbqi", False)
    if seed is not None:
        s.set("random_seed", seed)
        s.set("smt.random_seed", seed)
    for c in pc:
        if not qf_only or not has_quant(c):
            s.add(c)
    s.add(z3.Not(goal))
    return _guarded_check(s, timeout_ms), s


def _guarded_check(s, timeout_ms, who="prove"):
    """s.check() with a watchdog: z3 does not always honour its own timeout (observed: minutes inside one check with a
    20 s timeout); after 1.5x the budget + 2 s the context is interrupted and the answer is `unknown`."""
    import threading
    fired = []

    def stop():
        fired.append(1)
        z3.main_ctx().interrupt()
    # path pruning and vacuity canaries only ever use `unsat`; an interrupted one is `unknown` = "feasible", the safe answer, so
    # their safety net can be short (non-linear real arithmetic does not honour rlimit); proofs get the long one
    slack = WALL_SLACK if who == "prove" else 5.0
    t = threading.Timer(timeout_ms / 1000.0 * WALL_FACTOR + slack, stop)
    t.daemon = True
    t.start()
    t0 = time.time()
    try:
        return s.check()
    except z3.Z3Exception:
        return z3.unknown
    finally:
        t.cancel()
        if fired and who == "prove":
            WALLCLOCK_HITS.append(timeout_ms)
        STATS["checks"] += 1
        STATS["seconds"] += time.time() - t0
        STATS["last_s"] = round(time.time() - t0, 2)
        STATS[who + "_n"] = STATS.get(who + "_n", 0) + 1
        STATS[who + "_s"] = round(STATS.get(who + "_s", 0.0) + time.time() - t0, 3)
        try:
            st = s.statistics()
            for k in st.keys():
                if k == "rlimit count":
                    STATS["rlimit_last"] = st.get_key_value(k)   # cumulative over the context
        except Exception:   # pragma: no cover
            pass


def prove(pc, goal, timeout_ms=None, want_model=True, external=True):
    t0 = time.time()
    try:
        # a larger budget (thorough tier) first runs exactly what the quick tier runs, and only then spends more: a query the
        # quick tier discharges is discharged by every tier, by the same stage
        timeout_ms = timeout_ms or QUICK_MS
        base = min(timeout_ms, BASE_MS)
        res = _prove(pc, goal, base, want_model, external)
        if res["verdict"] == "unknown" and timeout_ms > base and external:
            for kw in (dict(), dict(ematch=True)):
                try:
                    r, s = _check(pc, goal, timeout_ms if not kw else timeout_ms // 2, **kw)
                except _Stuck:
                    break   # the quick pipeline's verdict stands
                if r == z3.unsat:
                    res.update(verdict="unsat", backend="z3-5.1.0 (extended budget%s)" % (", e-matching" if kw else ""), ms=(time.time() - t0) * 1000.0)
                    return res
                if r == z3.sat and not kw:
                    res.update(verdict="sat", backend="z3-5.1.0 (extended budget)", model=s.model() if want_model else None, ms=(time.time() - t0) * 1000.0)
                    return res
            res["ms"] = (time.time() - t0) * 1000.0
        return res
    except _Stuck as e:
        return dict(verdict="unknown", backend="z3-5.1.0", model=None, ms=(time.time() - t0) * 1000.0,
                    reason="interrupted [wall-clock safety net fired: the solver ignored its resource limit on this query]")


def _prove(pc, goal, timeout_ms=None, want_model=True, external=True):
    """Is pc -> goal valid?  Returns dict(verdict=unsat|sat|unknown, backend, ms, model).
    Staged: (A) full query, short budget; (B) quantifier-free subset of the assumptions (sound: fewer assumptions);
    (C) pure E-matching; (D) full query, full budget; (E) re-seeded runs, cvc5, z3 4.8 on the SMT-LIB text."""
    timeout_ms = timeout_ms or QUICK_MS
    t0 = time.time()
    quant = any(has_quant(c) for c in pc) or has_quant(goal)
    res = dict(backend="z3-5.1.0", model=None)

    def done(verdict, backend=None, model=None):
        res.update(verdict=verdict, ms=(time.time() - t0) * 1000.0)
        if backend:
            res["backend"] = backend
        if model is not None:
            res["model"] = model
        return res
    stuck = None
    try:
        r, s = _check(pc, goal, min(1500, timeout_ms) if quant else timeout_ms)
    except _Stuck as e:
        r, s, stuck = z3.unknown, e.args[0], e
    if r == z3.unsat:
        return done("unsat")
    if r == z3.sat:
        return done("sat", model=s.model() if want_model else None)
    # (R) the same query without the DERIVED assumptions (proved facts, lemma instances, definitions of ghost functions): a proof
    # from fewer hypotheses is a proof, and it is often found at once because the non-linear / quantified ballast is gone
    reduced = [c for c in pc if c.get_id() not in DERIVED]
    if len(reduced) < len(pc) and not os.environ.get("PYVC_NO_R"):
        try:
            r2, s2 = _check(reduced, goal, min(3000, timeout_ms))
        except _Stuck:
            r2, s2 = z3.unknown, None
        # Only `unsat` is taken from this stage (fewer hypotheses: always sound).  A `sat` here was observed to be spurious once
        # (multi_geometric_kernel: the full query is unsat) - with recursive spec functions (psum / ksum) the dropped lemma
        # instances are what keeps a candidate model honest - so a model of the reduced query is NOT reported as a refutation.
        if r2 == z3.unsat:
            return done("unsat", "z3-5.1.0 (derived facts dropped)")
    if stuck is not None:
        raise stuck
    if quant:
        r, _ = _check(pc, goal, 500, qf_only=True)
        if r == z3.unsat:
            return done("unsat", "z3-5.1.0 (quantifier-free subset)")
        # E-matching alone: a short try first (when it works it works at once; when it does not it can burn minutes per
        # resource unit), the full query with the full budget next, a long E-matching try only after that
        r, _ = _check(pc, goal, 1000, ematch=True)
        if r == z3.unsat:
            return done("unsat", "z3-5.1.0 (e-matching)")
        r, s = _check(pc, goal, timeout_ms)
        if r == z3.unsat:
            return done("unsat")
        if r == z3.sat:
            return done("sat", model=s.model() if want_model else None)
        if timeout_ms // 2 > 1000 and external:
            r, _ = _check(pc, goal, timeout_ms // 2, ematch=True)
            if r == z3.unsat:
                return done("unsat", "z3-5.1.0 (e-matching)")
    if not external:
        res["reason"] = _reason(s)
        return done("unknown")
    for seed in (1, 7):
        r, _ = _check(pc, goal, timeout_ms, seed=seed, ematch=(seed == 1))
        if r == z3.unsat:
            return done("unsat", "z3-5.1.0 (reseeded)")
    v, backend = _external("(set-logic ALL)\n" + s.to_smt2(), max(5, timeout_ms // 1000))
    if v != "unknown":
        return done(v, backend)
    res["reason"] = _reason(s)
    return done("unknown")


def _reason(s):
    r = s.reason_unknown()
    if WALLCLOCK_HITS:
        r += " [wall-clock safety net fired %d time(s) in this function]" % len(WALLCLOCK_HITS)
    return r


def _unused():
    res = {}
    res["ms"] = (time.time() - t0) * 1000.0
    return res
