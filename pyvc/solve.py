"""Solver back ends: z3 (python API) first, then cvc5 and /usr/bin/z3 on the
SMT-LIB text when z3 says unknown."""
import os
import subprocess
import tempfile
import time

import z3

QUICK_MS = int(os.environ.get("PYVC_TIMEOUT_MS", "15000"))


def _mk_solver(timeout_ms):
    s = z3.Solver()
    s.set("timeout", timeout_ms)
    return s


_HASQ = {}
STATE = dict(skip_default_first=False, ematch_wins=0)


def reset_state():
    STATE.update(skip_default_first=False, ematch_wins=0)


def has_quant(e):
    i = e.get_id()
    r = _HASQ.get(i)
    if r is not None:
        return r
    if z3.is_quantifier(e):
        r = True
    elif z3.is_app(e):
        r = any(has_quant(c) for c in e.children())
    else:
        r = False
    _HASQ[i] = r
    return r


def feasible(pc, timeout_ms=250, full=False):
    """False only if pc is certainly unsatisfiable.  By default only the quantifier-free
    conjuncts are used (an over-approximation of feasibility: sound for pruning)."""
    s = _mk_solver(timeout_ms)
    for c in pc:
        if full or not has_quant(c):
            s.add(c)
    r = s.check()
    if r == z3.unknown and full:
        return feasible(pc, timeout_ms, full=False)
    return r != z3.unsat


def _external(smt2, timeout_s):
    """Try cvc5 and the distro z3 on the SMT-LIB text. Returns (verdict, backend)."""
    with tempfile.NamedTemporaryFile("w", suffix=".smt2", delete=False) as f:
        f.write(smt2)
        path = f.name
    try:
        for backend, cmd in (
            ("cvc5-1.0.3", ["/usr/bin/cvc5", "--tlimit=%d" % (timeout_s * 1000), path]),
            ("z3-4.8.12", ["/usr/bin/z3", "-T:%d" % timeout_s, path]),
        ):
            try:
                out = subprocess.run(cmd, capture_output=True, text=True, timeout=timeout_s + 5).stdout
            except Exception:
                continue
            first = out.strip().splitlines()[0] if out.strip() else ""
            if first in ("unsat", "sat"):
                return first, backend
        return "unknown", "none"
    finally:
        os.unlink(path)


def _retry(pc, goal, timeout_ms):
    """z3's quantifier instantiation is sensitive to the random seed: before giving up (and before the slower
    external solvers) retry with other seeds and with MBQI off (pure E-matching)."""
    for seed, mbqi in ((1, False), (7, True), (23, False)):
        s = z3.Solver()
        s.set("timeout", timeout_ms)
        s.set("random_seed", seed)
        s.set("smt.random_seed", seed)
        if not mbqi:
            s.set("smt.mbqi", False)
        for c in pc:
            s.add(c)
        s.add(z3.Not(goal))
        if s.check() == z3.unsat:
            return True
    return False


def prove(pc, goal, timeout_ms=None, want_model=True, external=True):
    """Is pc -> goal valid?  Returns dict(verdict=unsat|sat|unknown, backend, ms, model)."""
    timeout_ms = timeout_ms or QUICK_MS
    t0 = time.time()
    # stage 1: quantifier-free assumptions only (a subset of the assumptions: unsat here is unsat overall)
    if any(has_quant(c) for c in pc):
        s1 = _mk_solver(min(2000, timeout_ms))
        for c in pc:
            if not has_quant(c):
                s1.add(c)
        s1.add(z3.Not(goal))
        if s1.check() == z3.unsat:
            return dict(verdict="unsat", backend="z3-5.1.0", model=None, ms=(time.time() - t0) * 1000.0)
    s = _mk_solver(timeout_ms if STATE["skip_default_first"] is False else min(1500, timeout_ms))
    for c in pc:
        s.add(c)
    s.add(z3.Not(goal))
    r = s.check()
    if r == z3.unknown and any(has_quant(c) for c in pc):
        # pure E-matching (MBQI off): fast and stable for quantified invariants where the default strategy wanders; cannot answer sat
        s2 = _mk_solver(timeout_ms)
        s2.set("smt.mbqi", False)
        for c in pc:
            s2.add(c)
        s2.add(z3.Not(goal))
        if s2.check() == z3.unsat:
            STATE["ematch_wins"] += 1
            if STATE["ematch_wins"] >= 1:
                STATE["skip_default_first"] = True   # in this function the default strategy gets a short budget from now on
            return dict(verdict="unsat", backend="z3-5.1.0 (e-matching)", model=None, ms=(time.time() - t0) * 1000.0)
        if STATE["skip_default_first"]:
            # the short-budget default run may have been cut off: give it the full budget before concluding
            s = _mk_solver(timeout_ms)
            for c in pc:
                s.add(c)
            s.add(z3.Not(goal))
            r = s.check()
    res = dict(backend="z3-5.1.0", model=None)
    if r == z3.unsat:
        res["verdict"] = "unsat"
    elif r == z3.sat:
        res["verdict"] = "sat"
        if want_model:
            res["model"] = s.model()
    elif not external:
        res["verdict"] = "unknown"
        res["reason"] = s.reason_unknown()
    elif _retry(pc, goal, timeout_ms):
        res["verdict"] = "unsat"
        res["backend"] = "z3-5.1.0 (reseeded)"
    else:
        v, backend = _external("(set-logic ALL)\n" + s.to_smt2(), max(5, timeout_ms // 1000))
        res["verdict"] = v
        if v != "unknown":
            res["backend"] = backend
        else:
            res["reason"] = s.reason_unknown()
    res["ms"] = (time.time() - t0) * 1000.0
    return res
