"""Structural obligations on the python glue (estimator methods): facts that hold for every input because they
are facts about every path / every call site of the real source text, decided by AST dataflow instead of SMT.

Kinds:
  ret-self       every return of the method returns `self`, and control cannot fall off the end
  shape-pinned   every scipy sparse constructor call assembling a matrix from index arrays passes shape=
  rebind         every call of a handle-returning function is assigned back to the lvalue passed as first argument
  kwarg          every call of the named function inside the method passes the keyword with the given expression text
  no-mutator     the method never calls an in-place method (eliminate_zeros, sort_indices, ...) on one of its parameters
  same-steps     two methods call the same `self._set_*` steps in the same order
Each obligation is named <file>::<qualname>/<kind>#n@L<line> like the SMT ones; verdict unsat(=holds)/sat(=refuted)."""
import ast
import os

from .core import ModInfo, REPO

SPARSE_CTORS = {"csr_matrix", "coo_matrix", "csc_matrix"}
MUTATORS = {"eliminate_zeros", "sort_indices", "sum_duplicates", "resize", "sort", "setdiag", "fill"}


def _fn(mod, qual):
    if qual not in mod.funcs:
        raise KeyError("function %s not found in %s" % (qual, mod.path))
    return mod.funcs[qual]


def _ob(path, qual, kind, n, line, note, ok):
    return dict(name="%s::%s/%s#%d@L%d" % (path, qual, kind, n, line), kind=kind, line=line, note=note, verdict="unsat" if ok else "sat",
                backend="structural", ms=0.0, model=None, trace=[], func="%s::%s" % (path, qual))


def always_exits(stmts):
    """True if control cannot fall off the end of the statement list (return/raise on every path)."""
    for s in stmts:
        if isinstance(s, (ast.Return, ast.Raise)):
            return True
        if isinstance(s, ast.If) and s.orelse and always_exits(s.body) and always_exits(s.orelse):
            return True
        if isinstance(s, ast.Try) and always_exits(s.body) and all(always_exits(h.body) for h in s.handlers):
            return True
        if isinstance(s, (ast.With,)) and always_exits(s.body):
            return True
    return False


def check(spec):
    """spec: dict(file=..., function=qualname, kind=..., **params) -> list of obligation dicts."""
    mod = ModInfo(spec["file"])
    qual = spec["function"]
    fdef = _fn(mod, qual)
    kind = spec["kind"]
    out = []
    n = 0
    if kind == "ret-self":
        rets = [r for r in ast.walk(fdef) if isinstance(r, ast.Return) and _owner(fdef, r)]
        for r in rets:
            n += 1
            ok = isinstance(r.value, ast.Name) and r.value.id == "self"
            out.append(_ob(mod.path, qual, kind, n, r.lineno, "return statement returns the estimator itself (found: %s)" % (ast.unparse(r.value) if r.value else "None"), ok))
        n += 1
        out.append(_ob(mod.path, qual, kind, n, fdef.end_lineno, "control cannot fall off the end of %s (implicit return None)" % qual, always_exits(fdef.body)))
    elif kind == "shape-pinned":
        for c in ast.walk(fdef):
            if isinstance(c, ast.Call) and _callee_name(c) in SPARSE_CTORS and c.args and isinstance(c.args[0], ast.Tuple) and \
                    (len(c.args[0].elts) == 3 or (len(c.args[0].elts) == 2 and isinstance(c.args[0].elts[1], ast.Tuple))):
                n += 1
                has = any(k.arg == "shape" for k in c.keywords)
                out.append(_ob(mod.path, qual, kind, n, c.lineno, "sparse constructor %s(...) assembling index arrays passes an explicit shape=" % _callee_name(c), has))
        if n == 0 and not spec.get("allow_none"):
            out.append(_ob(mod.path, qual, kind, 1, fdef.lineno, "expected at least one sparse constructor call in %s (anchor lost)" % qual, False))
    elif kind == "rebind":
        target = spec["callee"]
        for s in ast.walk(fdef):
            if isinstance(s, ast.Call) and _callee_name(s) == target:
                n += 1
                parent = _parent_stmt(fdef, s)
                ok = isinstance(parent, ast.Assign) and len(parent.targets) == 1 and parent.value is s and s.args and ast.unparse(parent.targets[0]) == ast.unparse(s.args[0])
                out.append(_ob(mod.path, qual, kind, n, s.lineno, "result of %s(%s, ...) is stored back into the handle it was given" % (target, ast.unparse(s.args[0]) if s.args else "?"), ok))
        if n == 0:
            out.append(_ob(mod.path, qual, kind, 1, fdef.lineno, "expected a call of %s in %s (anchor lost)" % (target, qual), False))
    elif kind == "kwarg":
        target, kw, want = spec["callee"], spec["keyword"], spec.get("value")
        for s in ast.walk(fdef):
            if isinstance(s, ast.Call) and _callee_name(s) == target:
                if spec.get("arg_contains") and not (s.args and spec["arg_contains"] in ast.unparse(s.args[0])):
                    continue
                n += 1
                vals = [ast.unparse(k.value) for k in s.keywords if k.arg == kw]
                ok = (bool(vals) and (want is None or _norm(vals[0]) == _norm(want))) or (not vals and spec.get("missing_ok", False))
                out.append(_ob(mod.path, qual, kind, n, s.lineno, "call of %s passes %s=%s (found: %s)" % (target, kw, want if want is not None else "<given>", vals[0] if vals else "missing"), ok))
        if n == 0:
            out.append(_ob(mod.path, qual, kind, 1, fdef.lineno, "expected a call of %s in %s (anchor lost)" % (target, qual), False))
    elif kind == "posarg":
        # call of `callee` passes the literal `value` as positional argument `index` (or as keyword `keyword`)
        target, idx, want = spec["callee"], spec["index"], spec["value"]
        for s in ast.walk(fdef):
            if isinstance(s, ast.Call) and _callee_name(s) == target:
                n += 1
                found = ast.unparse(s.args[idx]) if len(s.args) > idx and not any(isinstance(a, ast.Starred) for a in s.args) else \
                    next((ast.unparse(k.value) for k in s.keywords if k.arg == spec.get("keyword")), "missing")
                out.append(_ob(mod.path, qual, kind, n, s.lineno, "call of %s passes %s as argument %d (found: %s)" % (target, want, idx, found), _norm(found) == _norm(want)))
        if n == 0:
            out.append(_ob(mod.path, qual, kind, 1, fdef.lineno, "expected a call of %s in %s (anchor lost)" % (target, qual), False))
    elif kind == "no-mutator":
        params = {a.arg for a in fdef.args.args if a.arg != "self"}
        aliases = set(params)
        for s in ast.walk(fdef):
            if isinstance(s, ast.Call) and isinstance(s.func, ast.Attribute) and s.func.attr in MUTATORS and isinstance(s.func.value, ast.Name) and s.func.value.id in aliases:
                # a parameter that has been rebound to a fresh object before is not the caller's object any more
                if _rebound_before(fdef, s.func.value.id, s.lineno):
                    continue
                n += 1
                out.append(_ob(mod.path, qual, kind, n, s.lineno, "in-place method %s() called on parameter %s" % (s.func.attr, s.func.value.id), False))
        n += 1
        out.append(_ob(mod.path, qual, kind, n, fdef.lineno, "no in-place method is called on a parameter of %s" % qual, not any(o["verdict"] == "sat" for o in out)))
    elif kind == "same-steps":
        other = _fn(mod, spec["other"])
        a, b = _steps(fdef), _steps(other)
        out.append(_ob(mod.path, qual, kind, 1, fdef.lineno, "%s and %s perform the same self._set_* / build steps in the same order (%s vs %s)" % (qual, spec["other"], a, b), a == b and len(a) > 0))
    elif kind == "no-alias-mutation":
        # objects owned by the operands (self.X / other.X / parameter attributes) are not written through a direct alias
        owners = set(spec.get("owners", ["self", "other"]))
        aliases = {}
        for node in ast.walk(fdef):
            if isinstance(node, ast.Assign) and len(node.targets) == 1 and isinstance(node.targets[0], ast.Name):
                v = node.value
                if isinstance(v, ast.Attribute) and isinstance(v.value, ast.Name) and v.value.id in owners:
                    aliases[node.targets[0].id] = ast.unparse(v)
        def owned(e):
            # expression denotes an operand-owned object (directly or through an alias)
            if isinstance(e, ast.Attribute) and isinstance(e.value, ast.Name) and e.value.id in owners:
                return ast.unparse(e)
            if isinstance(e, ast.Name) and e.id in aliases:
                return aliases[e.id] + " (alias %s)" % e.id
            return None
        bad = []
        for node in ast.walk(fdef):
            if isinstance(node, (ast.Assign, ast.AugAssign)):
                for t in (node.targets if isinstance(node, ast.Assign) else [node.target]):
                    if isinstance(t, ast.Subscript) and owned(t.value):
                        bad.append((node.lineno, "item assignment into %s" % owned(t.value)))
            elif isinstance(node, ast.Call) and isinstance(node.func, ast.Attribute) and node.func.attr in (MUTATORS | {"update", "append", "extend", "pop", "clear", "setdefault", "add", "remove", "insert"}) and owned(node.func.value):
                bad.append((node.lineno, "%s() on %s" % (node.func.attr, owned(node.func.value))))
            elif isinstance(node, ast.Delete):
                for t in node.targets:
                    if isinstance(t, ast.Subscript) and owned(t.value):
                        bad.append((node.lineno, "del on %s" % owned(t.value)))
        for line, what in bad:
            n += 1
            out.append(_ob(mod.path, qual, kind, n, line, "operand-owned object written: %s" % what, False))
        n += 1
        out.append(_ob(mod.path, qual, kind, n, fdef.lineno, "%s never writes into an object owned by %s (directly or through an un-copied alias)" % (qual, "/".join(sorted(owners))), not bad))
    elif kind == "calls":
        # the function calls each of the named functions at least once on its straight-line (non-nested-function) body
        names = {_callee_name(c) for c in ast.walk(fdef) if isinstance(c, ast.Call)}
        for want in spec["callees"]:
            n += 1
            out.append(_ob(mod.path, qual, kind, n, fdef.lineno, "%s calls %s (%s)" % (qual, want, spec.get("why", "")), want in names))
    elif kind == "same-branch":
        # the branch guarded by the given test is textually identical in two methods (hand-duplicated code that must stay in step)
        other = _fn(mod, spec["other"])
        want = _norm(spec["test"])

        def branch(fd):
            for node in ast.walk(fd):
                if isinstance(node, ast.If) and ast.unparse(node.test) == want:
                    return "\n".join(ast.unparse(b) for b in node.body), node.lineno
            return None, fd.lineno
        a, la = branch(fdef)
        b, lb = branch(other)
        out.append(_ob(mod.path, qual, kind, 1, la, "the branch `%s` of %s is identical to the one of %s" % (spec["test"], qual, spec["other"]), a is not None and a == b))
    else:
        raise ValueError("unknown structural kind " + kind)
    return out


def _norm(s):
    return ast.unparse(ast.parse(s, mode="eval").body)


def _owner(fdef, node):
    """node belongs to fdef itself (not to a nested function)."""
    for n in ast.walk(fdef):
        if n is not fdef and isinstance(n, (ast.FunctionDef, ast.Lambda)):
            if any(x is node for x in ast.walk(n)):
                return False
    return True


def _callee_name(c):
    f = c.func
    if isinstance(f, ast.Name):
        return f.id
    if isinstance(f, ast.Attribute):
        return f.attr
    return None


def _parent_stmt(fdef, node):
    for s in ast.walk(fdef):
        if isinstance(s, ast.stmt) and not isinstance(s, (ast.FunctionDef,)):
            for child in ast.iter_child_nodes(s):
                if child is node or (isinstance(child, ast.expr) and any(x is node for x in ast.walk(child)) and not isinstance(s, (ast.For, ast.While, ast.If))):
                    if isinstance(s, (ast.Assign, ast.Expr, ast.AugAssign, ast.Return)):
                        return s
    return None


def _rebound_before(fdef, name, line):
    for s in ast.walk(fdef):
        if isinstance(s, ast.Assign) and s.lineno < line:
            for t in s.targets:
                if isinstance(t, ast.Name) and t.id == name and not (isinstance(s.value, ast.Name) and s.value.id == name):
                    return True
    return False


def _steps(fdef):
    steps = []
    for s in fdef.body:
        for c in ast.walk(s):
            if isinstance(c, ast.Call) and isinstance(c.func, ast.Attribute) and isinstance(c.func.value, ast.Name) and c.func.value.id == "self" \
                    and (c.func.attr.startswith("_set_") or c.func.attr.startswith("_build_") or c.func.attr == "_preprocessing"):
                steps.append(c.func.attr)
    return steps


def run_all(specs):
    res = []
    for sp in specs:
        try:
            obs = check(sp)
            res.append(dict(function="%s::%s" % (sp["file"], sp["function"]), variant=dict(structural=sp["kind"]), error=None, obligations=obs, canaries=[], trusted=[],
                            inlined=[], used_contracts=[], loops_cut=[], paths=0, wall_s=0.0, lines=None, source_sha=None))
        except Exception as e:
            res.append(dict(function="%s::%s" % (sp["file"], sp["function"]), variant=dict(structural=sp["kind"]), error="structural checker: %s" % e, obligations=[], canaries=[],
                            trusted=[], inlined=[], used_contracts=[], loops_cut=[], paths=0, wall_s=0.0))
    return res
