"""Builtins, methods and numpy functions: trusted library contracts (DESIGN section 4)."""
import ast
import z3
from .values import *  # noqa
from .expr import zint, ite, zmax, zmin, is_true, is_false, py_floordiv, py_mod
from .calls import dtype_kind


_RECFUNS = {}


class LibMixin:
    # ------------------------------------------------------------ helpers
    def kw(self, node, name, pos=None):
        for k in node.keywords:
            if k.arg == name:
                return k.value
        if pos is not None and len(node.args) > pos:
            return node.args[pos]
        return None

    def new_filled(self, st, n, kind, value=None, two_d=None):
        """Fresh array of length n (all elements == value if given)."""
        st_n = z3.simplify(n)
        if two_d is not None:
            inner = z3.K(INT, value) if value is not None else fresh("row", arr_sort(kind))
            a = z3.K(INT, inner) if value is not None else fresh("mat", z3.ArraySort(INT, arr_sort(kind)))
            return st.alloc(HArr2(kind, a, st_n, z3.simplify(two_d)))
        a = z3.K(INT, value) if value is not None else fresh("emp", arr_sort(kind))
        return st.alloc(HArr(kind, a, st_n))

    def shape_arg(self, node, st):
        """First positional arg as (n,) or (n, m)."""
        v = self.eval(node.args[0], st)
        if isinstance(v, Sc):
            t = to_int(v) if v.kind != "real" else z3.ToInt(v.t)
            return [t]
        if isinstance(v, Tup):
            return [to_int(x) for x in v.items]
        raise VCError("shape argument %r at line %d" % (v, node.lineno))

    def alloc_np(self, node, st, value_of_kind):
        dt = self.kw(node, "dtype", 1 if value_of_kind != "full" else 2)
        kind = dtype_kind(dt)
        if kind is None:
            kind = (self.contract.get("dtype_kinds") or {}).get(ast.unparse(dt), "real")
        shp = self.shape_arg(node, st)
        for d in shp:
            self.oblige(st, "index", node, d >= 0, "negative dimension in array allocation")
        if value_of_kind == "zeros":
            val = {"int": zint(0), "real": z3.RealVal(0), "bool": z3.BoolVal(False)}[kind]
        elif value_of_kind == "ones":
            val = {"int": zint(1), "real": z3.RealVal(1), "bool": z3.BoolVal(True)}[kind]
        elif value_of_kind == "full":
            fv = self.eval(node.args[1], st)
            if dt is None:
                kind = "real" if fv.kind == "real" else "int" if fv.kind == "int" else "bool"
            val = self.conv(fv, kind)
        else:
            val = None
        if len(shp) == 1:
            return self.new_filled(st, shp[0], kind, val)
        if len(shp) == 2:
            return self.new_filled(st, shp[0], kind, val, two_d=shp[1])
        raise VCError("array of %d dims at line %d" % (len(shp), node.lineno))

    def l_np_zeros(self, node, st):
        return self.alloc_np(node, st, "zeros")

    def l_np_ones(self, node, st):
        return self.alloc_np(node, st, "ones")

    def l_np_empty(self, node, st):
        return self.alloc_np(node, st, "empty")

    def l_np_full(self, node, st):
        return self.alloc_np(node, st, "full")

    def l_np_zeros_like(self, node, st):
        v = self.eval(node.args[0], st)
        if isinstance(v, Ref) and isinstance(st.obj(v), HArr2):
            o = st.obj(v)
            zero = {"int": zint(0), "real": z3.RealVal(0), "bool": z3.BoolVal(False)}[o.kind]
            return st.alloc(HArr2(o.kind, z3.K(INT, z3.K(INT, zero)), o.n, o.m))
        kind = self.elem_kind(st, v)
        val = {"int": zint(0), "real": z3.RealVal(0), "bool": z3.BoolVal(False)}[kind]
        return self.new_filled(st, self.length_of(st, v), kind, val)

    def l_np_arange(self, node, st):
        args = [self.eval(a, st) for a in node.args]
        if any(a.kind == "real" for a in args):
            raise VCError("float arange at line %d" % node.lineno)
        args = [to_int(a) for a in args]
        if len(args) == 1:
            lo, hi, step = zint(0), args[0], zint(1)
        elif len(args) == 2:
            lo, hi, step = args[0], args[1], zint(1)
        else:
            lo, hi, step = args
        ss = z3.simplify(step)
        if is_true(ss == 1):
            n = zmax(hi - lo, zint(0))
        else:
            self.oblige(st, "div", node, step != 0, "arange step is zero")
            n = ite(step > 0, zmax(py_floordiv(hi - lo + step - 1, step), zint(0)), zmax(py_floordiv(lo - hi - step - 1, -step), zint(0)))
        k = z3.Int("k!lam")
        return st.alloc(HArr("int", z3.Lambda([k], lo + k * step), z3.simplify(n)))

    # ---- scalar math (floats as reals; rounding ignored: stated assumption)
    def scalar_or_ew(self, node, st, f, rkind_of):
        v = self.eval(node.args[0], st)
        if isinstance(v, Sc):
            return Sc(rkind_of(v.kind), f(v))
        k = self.elem_kind(st, v)
        return self.elementwise(st, node, lambda x: f(Sc(k, x)), [v], rkind_of(k))

    def l_np_abs(self, node, st):
        def f(v):
            t = v.t if v.kind != "bool" else to_int(v)
            return ite(t >= 0, t, -t)
        return self.scalar_or_ew(node, st, f, lambda k: "real" if k == "real" else "int")

    l_np_absolute = l_np_abs

    def b_abs(self, node, st):
        return self.l_np_abs(node, st)

    def l_np_sqrt(self, node, st):
        sq = self.ufunc("sqrt", [REAL], REAL)

        def f(v):
            x = to_real(v)
            if self.fsafe and not self.spec:
                self.oblige(st, "fsafe", node, x >= 0, "sqrt of a possibly negative number (NaN)")
            r = sq(x)
            st.assume(z3.Implies(x >= 0, z3.And(r >= 0, r * r == x)))
            st.assume(z3.Implies(x > 0, r > 0))
            return r
        v = self.eval(node.args[0], st)
        if isinstance(v, Sc):
            return Sc("real", f(v))
        k = self.elem_kind(st, v)
        x = fresh("k", REAL)
        st.assume(qall([x], z3.Implies(x >= 0, sq(x) >= 0), pats=[sq(x)]))
        return self.elementwise(st, node, lambda e: sq(to_real(Sc(k, e))), [v], "real")

    def l_np_log(self, node, st, name="log"):
        lg = self.ufunc(name, [REAL], REAL)

        def f(v):
            x = to_real(v)
            if self.fsafe and not self.spec:
                self.oblige(st, "fsafe", node, x > 0, "%s of a possibly non-positive number" % name)
            return lg(x)
        v = self.eval(node.args[0], st)
        if isinstance(v, Sc):
            r = f(v)
            if name == "log2":
                x = to_real(v)
                st.assume(z3.Implies(x >= 1, r >= 0))
                st.assume(z3.Implies(x >= 2, r >= 1))
                st.assume(z3.Implies(x > 2, r > 1))
            return Sc("real", r)
        k = self.elem_kind(st, v)
        return self.elementwise(st, node, lambda e: lg(to_real(Sc(k, e))), [v], "real")

    def l_np_log2(self, node, st):
        return self.l_np_log(node, st, "log2")

    def l_np_exp(self, node, st):
        ex = self.ufunc("exp", [REAL], REAL)
        v = self.eval(node.args[0], st)
        if isinstance(v, Sc):
            r = ex(to_real(v))
            st.assume(r > 0)
            return Sc("real", r)
        k = self.elem_kind(st, v)
        return self.elementwise(st, node, lambda e: ex(to_real(Sc(k, e))), [v], "real")

    def l_np_ceil(self, node, st):
        def f(v):
            if v.kind != "real":
                return to_real(v)
            return -z3.ToReal(z3.ToInt(-v.t))
        return self.scalar_or_ew(node, st, f, lambda k: "real")

    def l_np_floor(self, node, st):
        def f(v):
            if v.kind != "real":
                return to_real(v)
            return z3.ToReal(z3.ToInt(v.t))
        return self.scalar_or_ew(node, st, f, lambda k: "real")

    def l_np_round(self, node, st):
        if len(node.args) == 3:  # np.round(a, 0, out)
            v = self.eval(node.args[0], st)
            out = self.eval(node.args[2], st)
            r = self.round_arr(node, st, v)
            self.copy_into(st, out, r, node)
            return out
        v = self.eval(node.args[0], st)
        if isinstance(v, Sc):
            return Sc("real", self.round_term(st, to_real(v)))
        return self.round_arr(node, st, v)

    def round_term(self, st, x):
        # round-half-even is within 1/2 of x and integral: r = ToReal(i), |r - x| <= 1/2
        rf = self.ufunc("round_half_even", [REAL], INT)
        i = rf(x)
        st.assume(z3.And(z3.ToReal(i) - x <= z3.RealVal("1/2"), x - z3.ToReal(i) <= z3.RealVal("1/2")))
        return z3.ToReal(i)

    def round_arr(self, node, st, v):
        rf = self.ufunc("round_half_even", [REAL], INT)
        x = fresh("x", REAL)
        st.assume(qall([x], z3.And(z3.ToReal(rf(x)) - x <= z3.RealVal("1/2"), x - z3.ToReal(rf(x)) <= z3.RealVal("1/2")), pats=[rf(x)]))
        k = self.elem_kind(st, v)
        return self.elementwise(st, node, lambda e: z3.ToReal(rf(to_real(Sc(k, e)))), [v], "real")

    def b_round(self, node, st):
        v = self.eval(node.args[0], st)
        return Sc("int", z3.ToInt(self.round_term(st, to_real(v))))

    def cast(self, node, st, kind):
        v = self.eval(node.args[0], st)
        if isinstance(v, Sc):
            if kind == "int":
                if v.kind == "real":
                    x = v.t
                    exact = self.int_of_real(z3.simplify(x))
                    if exact is not None:
                        return Sc("int", exact)
                    return Sc("int", ite(x >= 0, z3.ToInt(x), -z3.ToInt(-x)))
                return Sc("int", to_int(v))
            if kind == "real":
                return Sc("real", to_real(v))
            return Sc("bool", truth(v))
        if self.is_arr1(st, v):
            return self.astype(st, node, v, kind)
        raise VCError("cast of %r at line %d" % (v, node.lineno))

    def copy_arr(self, st, v):
        """A fresh object with the same contents (z3 arrays are values: the term is shared, no quantifier needed)."""
        if isinstance(v, Ref):
            o = st.obj(v)
            return st.alloc(HArr(o.kind, o.a, o.n))
        o = st.obj(v.ref)
        return st.alloc(HArr(o.kind, self.as_z3_array(st, v), v.n))

    def int_of_real(self, t):
        """The Int term equal to real term t when t is syntactically integral, else None."""
        if z3.is_to_real(t):
            return t.arg(0)
        if z3.is_rational_value(t) and t.denominator_as_long() == 1:
            return zint(t.numerator_as_long())
        if z3.is_app(t) and t.decl().kind() == z3.Z3_OP_ITE:
            a, b = self.int_of_real(t.arg(1)), self.int_of_real(t.arg(2))
            if a is not None and b is not None:
                return ite(t.arg(0), a, b)
        if z3.is_app(t) and t.decl().kind() in (z3.Z3_OP_ADD, z3.Z3_OP_MUL, z3.Z3_OP_SUB, z3.Z3_OP_UMINUS):
            parts = [self.int_of_real(c) for c in t.children()]
            if all(p is not None for p in parts):
                k = t.decl().kind()
                if k == z3.Z3_OP_UMINUS:
                    return -parts[0]
                r = parts[0]
                for p in parts[1:]:
                    r = (r + p) if k == z3.Z3_OP_ADD else (r * p) if k == z3.Z3_OP_MUL else (r - p)
                return r
        return None

    def astype(self, st, node, v, kind):
        k = self.elem_kind(st, v)
        if k == kind:
            return self.copy_arr(st, v)
        def f(e):
            s = Sc(k, e)
            if kind == "real":
                return to_real(s)
            if kind == "int":
                if k == "real":
                    return ite(e >= 0, z3.ToInt(e), -z3.ToInt(-e))
                return to_int(s)
            return truth(s)
        return self.elementwise(st, node, f, [v], kind)

    def l_np_float32(self, node, st):
        self.trust("float32 rounding ignored (machine arithmetic treated as mathematical)")
        return self.cast(node, st, "real")

    def l_np_float64(self, node, st):
        return self.cast(node, st, "real")

    def l_np_int32(self, node, st):
        self.trust("int32/int64 casts assumed not to overflow")
        return self.cast(node, st, "int")

    l_np_int64 = l_np_int32
    l_np_uint32 = l_np_int32
    l_np_uint8 = l_np_int32

    def b_int(self, node, st):
        return self.cast(node, st, "int")

    def b_float(self, node, st):
        return self.cast(node, st, "real")

    def b_bool(self, node, st):
        return self.cast(node, st, "bool")

    def b_len(self, node, st):
        return Sc("int", self.length_of(st, self.eval(node.args[0], st)))

    def minmax(self, node, st, is_min):
        if len(node.args) == 1 and isinstance(node.args[0], (ast.List, ast.Tuple)) and node.args[0].elts:
            vals = [self.eval(a, st) for a in node.args[0].elts]   # min([a, b]) of a literal: same as min(a, b)
        else:
            vals = [self.eval(a, st) for a in node.args]
        if len(vals) == 1:
            return self.arr_minmax(node, st, vals[0], is_min)
        real = any(v.kind == "real" for v in vals)
        ts = [to_real(v) if real else to_int(v) for v in vals]
        r = ts[0]
        for t in ts[1:]:
            r = ite((t < r) if is_min else (t > r), t, r)
        return Sc("real" if real else "int", r)

    def arr_minmax(self, node, st, v, is_min):
        n = self.length_of(st, v)
        self.oblige(st, "index", node, n > 0, "min/max of an empty sequence raises ValueError")
        kind = self.elem_kind(st, v)
        r = fresh("mm", SORTS[kind])
        k = fresh("k", INT)
        e = self.read_elem(st, v, k)
        st.assume(qall([k], z3.Implies(z3.And(k >= 0, k < n), (r <= e) if is_min else (r >= e)), pats=[e]))
        w = fresh("w", INT)
        st.assume(z3.And(w >= 0, w < n, self.read_elem(st, v, w) == r))
        return Sc(kind, r)

    def b_min(self, node, st):
        return self.minmax(node, st, True)

    def b_max(self, node, st):
        return self.minmax(node, st, False)

    def l_np_max(self, node, st):
        return self.arr_minmax(node, st, self.eval(node.args[0], st), False)

    def l_np_min(self, node, st):
        return self.arr_minmax(node, st, self.eval(node.args[0], st), True)

    def ew_minmax(self, node, st, is_min):
        vals = [self.eval(a, st) for a in node.args]
        if all(isinstance(v, Sc) for v in vals):
            return self.minmax(node, st, is_min)
        kinds = [v.kind if isinstance(v, Sc) else self.elem_kind(st, v) for v in vals]
        rk = "real" if "real" in kinds else "int"

        def f(x, y):
            x = z3.ToReal(x) if (rk == "real" and x.sort() == INT) else x
            y = z3.ToReal(y) if (rk == "real" and y.sort() == INT) else y
            return ite((x < y) if is_min else (x > y), x, y)
        return self.elementwise(st, node, f, vals, rk)

    def l_np_maximum(self, node, st):
        return self.ew_minmax(node, st, False)

    def l_np_minimum(self, node, st):
        return self.ew_minmax(node, st, True)

    def l_np_divmod(self, node, st):
        a, b = self.eval(node.args[0], st), self.eval(node.args[1], st)
        if isinstance(a, Sc):
            return self.b_divmod(node, st)
        if not isinstance(b, Sc) or self.elem_kind(st, a) != "int" or b.kind != "int":
            raise VCError("np.divmod form at line %d" % node.lineno)
        self.oblige(st, "div", node, b.t != 0, "np.divmod by zero")
        q = self.elementwise(st, node, lambda x: py_floordiv(x, b.t), [a], "int")
        r = self.elementwise(st, node, lambda x: py_mod(x, b.t), [a], "int")
        return Tup([q, r])

    def b_ord(self, node, st):
        v = self.eval(node.args[0], st)
        if isinstance(v, Sc):
            return Sc("int", v.t)
        if isinstance(v, StrC) and len(v.s) == 1:
            return Sc("int", zint(ord(v.s)))
        raise VCError("ord of %r at line %d" % (v, node.lineno))

    def b_chr(self, node, st):
        v = self.eval(node.args[0], st)
        return Sc("int", to_int(v))  # a character is represented by its code

    def b_divmod(self, node, st):
        a, b = self.eval_int(node.args[0], st), self.eval_int(node.args[1], st)
        self.oblige(st, "div", node, b != 0, "divmod by zero")
        return Tup([Sc("int", py_floordiv(a, b)), Sc("int", py_mod(a, b))])

    def b_tuple(self, node, st):
        v = self.eval(node.args[0], st)
        if isinstance(v, Tup):
            return v
        raise VCError("tuple() of %r at line %d" % (v, node.lineno))

    def b_list(self, node, st):
        if not node.args:
            return st.alloc(HArr("int", fresh("lst", arr_sort("int")), zint(0), is_list=True))
        v = self.eval(node.args[0], st)
        if isinstance(v, tuple) and v[0] == "dictvalues":
            d = st.obj(v[1])
            r = new_arr(d.vkind, "vals", n=d.size, is_list=True)
            keyf = fresh_func("valkey", INT, d.ksort)
            k = fresh("k", INT)
            st.assume(qall([k], z3.Implies(z3.And(k >= 0, k < d.size), z3.And(z3.Select(d.dom, keyf(k)), z3.Select(r.a, k) == z3.Select(d.val, keyf(k)))),
                                pats=[z3.Select(r.a, k)]))
            return st.alloc(r)
        if self.is_arr1(st, v):
            return self.copy_arr(st, v)
        raise VCError("list() of %r at line %d" % (v, node.lineno))

    def b_set(self, node, st):
        if not node.args:
            return st.alloc(HSet(INT, z3.K(INT, z3.BoolVal(False)), zint(0)))
        v = self.eval(node.args[0], st)
        if isinstance(v, Ref) and isinstance(st.obj(v), HListTup) and is_true(st.obj(v).n == 1):
            o = st.obj(v)
            key = PAIR_MK(z3.Select(o.cols[0], 0), z3.Select(o.cols[1], 0))
            return st.alloc(HSet(PAIR_SORT, z3.Store(z3.K(PAIR_SORT, z3.BoolVal(False)), key, z3.BoolVal(True)), zint(1), "pair"))
        if self.is_arr1(st, v) and self.elem_kind(st, v) == "int":
            n = self.length_of(st, v)
            dom = fresh("setdom", z3.ArraySort(INT, BOOL))
            w = fresh_func("setw", INT, INT)
            k, x = fresh("k", INT), fresh("x", INT)
            ek = self.read_elem(st, v, k)
            st.assume(qall([k], z3.Implies(z3.And(k >= 0, k < n), z3.Select(dom, ek)), pats=[ek]))
            st.assume(qall([x], z3.Implies(z3.Select(dom, x), z3.And(w(x) >= 0, w(x) < n, self.read_elem(st, v, w(x)) == x)), pats=[z3.Select(dom, x)]))
            size = fresh("setsize", INT)
            st.assume(z3.And(size >= 0, size <= n))
            return st.alloc(HSet(INT, dom, size))
        raise VCError("set() of %r at line %d" % (v, node.lineno))

    def b_dict(self, node, st):
        if not node.args:
            raise VCError("dict() without argument at line %d" % node.lineno)
        v = self.eval(node.args[0], st)
        o = st.obj(v)
        if isinstance(o, HDict):
            return st.alloc(o.clone())   # a new dictionary object with the same entries
        raise VCError("dict() of %r at line %d" % (o, node.lineno))

    def b_List(self, node, st):
        # numba.typed.List(): an empty list whose element type comes from the contract's local_types at the assignment
        return st.alloc(HArr("int", fresh("lst", arr_sort("int")), zint(0), is_list=True))

    def b_print(self, node, st):
        return NONE

    def b_warn(self, node, st):
        return NONE  # warnings.warn: no effect on the state

    def b_isinstance(self, node, st):
        raise VCError("isinstance at line %d" % node.lineno)

    # ---- reductions
    def psum_fn(self, kind):
        """psum(a, k) = a[0] + ... + a[k-1] as a recursive function."""
        key = "psum_" + kind
        self.recfuns = _RECFUNS
        if key not in self.recfuns:
            srt = SORTS[kind] if kind != "bool" else INT
            f = z3.RecFunction(key, arr_sort(kind), INT, srt)
            a, k = z3.Const("a!ps", arr_sort(kind)), z3.Int("k!ps")
            zero = z3.RealVal(0) if kind == "real" else zint(0)
            elem = z3.Select(a, k - 1)
            if kind == "bool":
                elem = ite(elem, zint(1), zint(0))
            z3.RecAddDefinition(f, [a, k], ite(k <= 0, zero, f(a, k - 1) + elem))
            self.recfuns[key] = f
        return self.recfuns[key]

    def sum_of(self, node, st, v):
        if isinstance(v, Sc):
            return v
        kind = self.elem_kind(st, v)
        n = self.length_of(st, v)
        f = self.psum_fn(kind)
        t = f(self.as_z3_array(st, v), n)
        rk = "int" if kind == "bool" else kind
        return Sc(rk, t)

    def l_np_sum(self, node, st):
        return self.sum_of(node, st, self.eval(node.args[0], st))

    def b_sum(self, node, st):
        return self.sum_of(node, st, self.eval(node.args[0], st))

    def m_sum(self, recv, node, st):
        return self.sum_of(node, st, recv)

    # ---- array methods
    def m_astype(self, recv, node, st):
        if isinstance(recv, Mat):
            # an abstract matrix over the (mathematical) ring: a dtype cast keeps its value - machine number formats are not modelled
            return recv
        kind = dtype_kind(node.args[0])
        if kind is None:
            kind = self.elem_kind(st, recv)
        if isinstance(recv, Ref) and isinstance(st.obj(recv), HArr2):
            o = st.obj(recv)
            if o.kind == kind:
                return st.alloc(o.clone())
            return st.alloc(HArr2(kind, fresh("cast2", z3.ArraySort(INT, arr_sort(kind))), o.n, o.m))
        return self.astype(st, node, recv, kind)

    def m_copy(self, recv, node, st):
        if self.is_arr1(st, recv):
            return self.copy_arr(st, recv)
        if isinstance(recv, Ref):
            return st.alloc(st.obj(recv).clone())
        raise VCError("copy of %r" % (recv,))

    def m_flatten(self, recv, node, st):
        return self.m_copy(recv, node, st)

    def m_append(self, recv, node, st):
        v = self.eval(node.args[0], st)
        o = st.mut(recv)
        if isinstance(o, HArr) and o.is_list and isinstance(v, Sc):
            if is_true(o.n == 0) and o.kind != v.kind:
                o.kind = v.kind
                o.a = fresh("lst", arr_sort(v.kind))
            o.a = z3.Store(o.a, o.n, self.conv(v, o.kind))
            o.n = z3.simplify(o.n + 1)
            return NONE
        if isinstance(o, HArr) and o.is_list and is_true(o.n == 0) and not isinstance(v, Sc):
            # empty list literal receiving its first non-scalar element: retype
            if isinstance(v, Tup):
                kinds = [x.kind for x in v.items]
                new = HListTup(kinds, [z3.Store(fresh("ltc", arr_sort(k)), 0, x.t) for k, x in zip(kinds, v.items)], zint(1))
            else:
                kind = self.elem_kind(st, v)
                new = HListArr(kind, z3.Store(fresh("la", z3.ArraySort(INT, arr_sort(kind))), 0, self.as_z3_array(st, v)),
                               z3.Store(fresh("lal", z3.ArraySort(INT, INT)), 0, self.length_of(st, v)), zint(1))
            st.heap[recv.ref] = new
            return NONE
        if isinstance(o, HListTup) and isinstance(v, Tup):
            o.cols = [z3.Store(c, o.n, self.conv(x, k)) for c, x, k in zip(o.cols, v.items, o.kinds)]
            o.n = z3.simplify(o.n + 1)
            return NONE
        if isinstance(o, HListArr) and self.is_arr1(st, v):
            o.a = z3.Store(o.a, o.n, self.as_z3_array(st, v))
            o.lens = z3.Store(o.lens, o.n, self.length_of(st, v))
            o.n = z3.simplify(o.n + 1)
            return NONE
        raise VCError("append of %r to %r at line %d" % (v, o, node.lineno))

    def m_extend(self, recv, node, st):
        v = self.eval(node.args[0], st)
        o = st.mut(recv)
        if isinstance(o, HListTup) and isinstance(v, Ref) and isinstance(st.obj(v), HListTup):
            w = st.obj(v)
            k = z3.Int("k!ext")
            o.cols = [z3.Lambda([k], ite(k < o.n, z3.Select(c, k), (z3.ToReal(z3.Select(wc, k - o.n)) if (kd == "real" and wk == "int") else z3.Select(wc, k - o.n))))
                      for c, wc, kd, wk in zip(o.cols, w.cols, o.kinds, w.kinds)]
            o.n = z3.simplify(o.n + w.n)
            st.assume(w.n >= 0)
            return NONE
        if isinstance(o, HArr) and o.is_list and self.is_arr1(st, v):
            self.list_extend(st, recv, v, node)
            return NONE
        raise VCError("extend on %r with %r at line %d" % (o, v, node.lineno))

    def m_pop(self, recv, node, st):
        o = st.mut(recv)
        if isinstance(o, HDict):
            kt = self.key_term(st, o, self.eval(node.args[0], st), node)
            if len(node.args) < 2:
                self.oblige(st, "key", node, z3.Select(o.dom, kt), "dict.pop of a possibly absent key")
            r = Sc(o.vkind, z3.Select(o.val, kt))
            o.size = o.size - ite(z3.Select(o.dom, kt), zint(1), zint(0))
            o.dom = z3.Store(o.dom, kt, z3.BoolVal(False))
            return r
        raise VCError("pop on %r at line %d" % (o, node.lineno))

    def m_add(self, recv, node, st):
        o = st.mut(recv)
        if isinstance(o, HSet):
            kt = self.key_term(st, o, self.eval(node.args[0], st), node)
            o.size = o.size + ite(z3.Select(o.dom, kt), zint(0), zint(1))
            o.dom = z3.Store(o.dom, kt, z3.BoolVal(True))
            return NONE
        raise VCError("add on %r at line %d" % (o, node.lineno))

    def m_to_list(self, recv, node, st):
        """pandas IntervalIndex.to_list(): a fresh python list of the intervals (modelled as (left, right) records)."""
        self.trust("library contract: pandas IntervalIndex.to_list / IntervalIndex(list) / Interval(left, right) as a list of (left, right) records")
        o = st.obj(recv)
        return st.alloc(HListTup(o.kinds, o.cols, o.n, o.names))

    def l_pd_Interval(self, node, st):
        kw = {k.arg: self.eval(k.value, st) for k in node.keywords}
        return Tup([Sc("real", to_real(kw["left"])), Sc("real", to_real(kw["right"]))], ["left", "right"])

    def l_pd_IntervalIndex(self, node, st):
        return self.eval(node.args[0], st)

    def m_insert(self, recv, node, st):
        pos = z3.simplify(self.eval_int(node.args[0], st))
        v = self.eval(node.args[1], st)
        o = st.mut(recv)
        if isinstance(o, HListTup) and isinstance(v, Tup) and z3.is_int_value(pos) and pos.as_long() == 0:
            k = z3.Int("k!ins")
            o.cols = [z3.Lambda([k], ite(k == 0, self.conv(x, kd), z3.Select(c, k - 1))) for c, x, kd in zip(o.cols, v.items, o.kinds)]
            o.n = z3.simplify(o.n + 1)
            return NONE
        raise VCError("list.insert form at line %d" % node.lineno)

    def m_values(self, recv, node, st):
        return ("dictvalues", recv)

    def m_reverse(self, recv, node, st):
        o = st.mut(recv)
        k = z3.Int("k!rev")
        if isinstance(o, HListArr):
            o.a = z3.Lambda([k], z3.Select(o.a, o.n - 1 - k))
            o.lens = z3.Lambda([k], z3.Select(o.lens, o.n - 1 - k))
            return NONE
        if isinstance(o, HArr) and o.is_list:
            o.a = z3.Lambda([k], z3.Select(o.a, o.n - 1 - k))
            return NONE
        raise VCError("reverse on %r at line %d" % (o, node.lineno))

    def m_sort(self, recv, node, st):
        # in-place sort: contents become a sorted permutation (only sortedness + bag membership kept)
        if self.is_arr1(st, recv) and isinstance(recv, Ref):
            o = st.obj(recv)
            old_a, n = o.a, o.n
            new_a = fresh("sorted", old_a.sort())
            j, k = fresh("k", INT), fresh("k", INT)
            st.assume(qall([j, k], z3.Implies(z3.And(0 <= j, j <= k, k < n), z3.Select(new_a, j) <= z3.Select(new_a, k)),
                                pats=[z3.MultiPattern(z3.Select(new_a, j), z3.Select(new_a, k))]))
            pf = fresh_func("perm", INT, INT)
            st.assume(qall([k], z3.Implies(z3.And(k >= 0, k < n), z3.And(pf(k) >= 0, pf(k) < n, z3.Select(new_a, k) == z3.Select(old_a, pf(k)))),
                                pats=[z3.Select(new_a, k)]))
            st.mut(recv).a = new_a
            return NONE
        if isinstance(recv, Ref) and isinstance(st.obj(recv), HListTup):
            o = st.mut(recv)
            n = o.n
            old = o.cols
            new = [fresh("sortedc", c.sort()) for c in old]
            j, k = fresh("k", INT), fresh("k", INT)
            # lexicographic order on the first two components (ties beyond are irrelevant for our callers)
            def le(a, b):
                return z3.Or(z3.Select(new[0], a) < z3.Select(new[0], b),
                             z3.And(z3.Select(new[0], a) == z3.Select(new[0], b), z3.Select(new[1], a) <= z3.Select(new[1], b)))
            st.assume(qall([j, k], z3.Implies(z3.And(0 <= j, j <= k, k < n), le(j, k)),
                                pats=[z3.MultiPattern(z3.Select(new[0], j), z3.Select(new[0], k))]))
            pf = fresh_func("perm", INT, INT)
            st.assume(qall([k], z3.Implies(z3.And(k >= 0, k < n), z3.And(pf(k) >= 0, pf(k) < n,
                      *[z3.Select(nc, k) == z3.Select(oc, pf(k)) for nc, oc in zip(new, old)])), pats=[z3.Select(new[0], k)]))
            o.cols = new
            return NONE
        raise VCError("sort on %r at line %d" % (recv, node.lineno))

    def l_np_sort(self, node, st):
        v = self.eval(node.args[0], st)
        c = self.copy_arr(st, v)
        self.m_sort(c, node, st)
        return c

    def l_np_argsort(self, node, st):
        v = self.eval(node.args[0], st)
        n = self.length_of(st, v)
        r = new_arr("int", "argsort", n=n)
        j, k = fresh("k", INT), fresh("k", INT)
        st.assume(qall([k], z3.Implies(z3.And(k >= 0, k < n), z3.And(z3.Select(r.a, k) >= 0, z3.Select(r.a, k) < n)), pats=[z3.Select(r.a, k)]))
        st.assume(qall([j, k], z3.Implies(z3.And(0 <= j, j < k, k < n), z3.Select(r.a, j) != z3.Select(r.a, k)),
                            pats=[z3.MultiPattern(z3.Select(r.a, j), z3.Select(r.a, k))]))
        st.assume(qall([j, k], z3.Implies(z3.And(0 <= j, j <= k, k < n),
                            self.read_elem(st, v, z3.Select(r.a, j)) <= self.read_elem(st, v, z3.Select(r.a, k))),
                            pats=[z3.MultiPattern(z3.Select(r.a, j), z3.Select(r.a, k))]))
        return st.alloc(r)

    def l_np_flipud(self, node, st):
        v = self.eval(node.args[0], st)
        if isinstance(v, Ref) and isinstance(st.obj(v), HArr2):
            o = st.obj(v)
            k = z3.Int("k!flip")
            return st.alloc(HArr2(o.kind, z3.Lambda([k], z3.Select(o.a, o.n - 1 - k)), o.n, o.m))
        n = self.length_of(st, v)
        if isinstance(v, Ref):
            return View(v.ref, z3.simplify(n - 1), zint(-1), n)
        return View(v.ref, z3.simplify(v.start + (n - 1) * v.step), z3.simplify(-v.step), n)

    def l_np_repeat(self, node, st):
        v = self.eval(node.args[0], st)
        n = self.eval_int(node.args[1], st)
        if not isinstance(v, Sc):
            raise VCError("np.repeat of array at line %d" % node.lineno)
        self.oblige(st, "index", node, n >= 0, "np.repeat with negative count")
        kind = "int" if v.kind == "bool" else v.kind
        return self.new_filled(st, n, kind, self.conv(v, kind))

    def l_np_append(self, node, st):
        a = self.eval(node.args[0], st)
        b = self.eval(node.args[1], st)
        n = self.length_of(st, a)
        ka = self.elem_kind(st, a)
        if isinstance(b, Sc):
            kind = "real" if "real" in (ka, b.kind) else ka
            k = z3.Int("k!app")
            ea = self.read_elem(st, a, k)
            if kind == "real" and ka == "int":
                ea = z3.ToReal(ea)
            return st.alloc(HArr(kind, z3.Lambda([k], ite(k < n, ea, self.conv(b, kind))), z3.simplify(n + 1)))
        return self.concat(st, node, [a, b])

    def concat(self, st, node, vals):
        kinds = [self.elem_kind(st, v) for v in vals]
        kind = "real" if "real" in kinds else kinds[0]
        j = z3.Int("j!cat")
        offs = [zint(0)]
        for v in vals:
            offs.append(z3.simplify(offs[-1] + self.length_of(st, v)))
        body = None
        for idx in range(len(vals) - 1, -1, -1):
            v, kk = vals[idx], kinds[idx]
            e = self.read_elem(st, v, j - offs[idx])
            if kind == "real" and kk == "int":
                e = z3.ToReal(e)
            body = e if body is None else ite(j < offs[idx + 1], e, body)
        for v in vals:
            st.assume(self.length_of(st, v) >= 0)
        return st.alloc(HArr(kind, z3.Lambda([j], body), offs[-1]))

    def l_np_concatenate(self, node, st):
        v = self.eval(node.args[0], st)
        if isinstance(v, Tup):
            return self.concat(st, node, v.items)
        raise VCError("np.concatenate of %r at line %d" % (v, node.lineno))

    def l_np_cumsum(self, node, st):
        v = self.eval(node.args[0], st)
        kind = self.elem_kind(st, v)
        n = self.length_of(st, v)
        f = self.psum_fn(kind)
        k = z3.Int("k!cs")
        return st.alloc(HArr("int" if kind == "bool" else kind, z3.Lambda([k], f(self.as_z3_array(st, v), k + 1)), n))

    def l_np_searchsorted(self, node, st):
        a = self.eval(node.args[0], st)
        v = self.eval(node.args[1], st)
        n = self.length_of(st, a)
        if not isinstance(v, Sc):
            raise VCError("np.searchsorted with array needle at line %d" % node.lineno)
        r = fresh("ss", INT)
        st.assume(z3.And(r >= 0, r <= n))
        # on a sorted array: a[:r] < v <= a[r:]; only asserted under sortedness (else unconstrained in [0, n])
        j, k = fresh("k", INT), fresh("k", INT)
        ea = lambda i: self.read_elem(st, a, i)
        real = self.elem_kind(st, a) == "real" or v.kind == "real"
        vt = to_real(v) if real else to_int(v)
        cv = (lambda t: z3.ToReal(t) if (real and self.elem_kind(st, a) == "int") else t)
        sorted_a = qall([j, k], z3.Implies(z3.And(0 <= j, j <= k, k < n), ea(j) <= ea(k)))
        st.assume(z3.Implies(sorted_a, z3.And(
            qall([k], z3.Implies(z3.And(0 <= k, k < r), cv(ea(k)) < vt), pats=[ea(k)]),
            qall([k], z3.Implies(z3.And(r <= k, k < n), cv(ea(k)) >= vt), pats=[ea(k)]))))
        return Sc("int", r)

    def l_np_array(self, node, st):
        v = self.eval(node.args[0], st)
        if isinstance(v, Ref) or isinstance(v, View):
            o = st.obj(v.ref)
            if isinstance(o, HArr):
                kind = dtype_kind(self.kw(node, "dtype"), o.kind) or o.kind
                return self.astype(st, node, v, kind)
        if isinstance(v, Tup) and all(isinstance(x, Sc) for x in v.items):
            return self.list_from_vals(st, v.items)
        if isinstance(v, Ref) and isinstance(st.obj(v), HListTup):
            # a list of k-tuples of numbers becomes an (n, k) array: row i holds the i-th record
            o = st.obj(v)
            kind = "real" if "real" in o.kinds else "int"
            i, j = z3.Int("i!rec"), z3.Int("j!rec")
            def cell(c, kd):
                e = z3.Select(c, i)
                return z3.ToReal(e) if (kind == "real" and kd == "int") else e
            row = cell(o.cols[-1], o.kinds[-1])
            for jj in range(len(o.cols) - 2, -1, -1):
                row = z3.If(j == jj, cell(o.cols[jj], o.kinds[jj]), row)
            return st.alloc(HArr2(kind, z3.Lambda([i], z3.Lambda([j], row)), o.n, zint(len(o.cols))))
        raise VCError("np.array of %r at line %d" % (v, node.lineno))

    l_np_asarray = l_np_array

    def l_np_where(self, node, st):
        """np.where(mask) -> (indices,): strictly increasing, exactly the positions where mask holds."""
        b = self.eval(node.args[0], st)
        if not self.is_arr1(st, b) or self.elem_kind(st, b) != "bool" or len(node.args) != 1:
            raise VCError("np.where form at line %d" % node.lineno)
        n = self.length_of(st, b)
        r = new_arr("int", "where")
        w = fresh_func("wherew", INT, INT)
        j, k = fresh("j", INT), fresh("k", INT)
        rk = z3.Select(r.a, k)
        st.assume(z3.And(r.n >= 0, r.n <= n))
        st.assume(qall([k], z3.Implies(z3.And(k >= 0, k < r.n), z3.And(rk >= 0, rk < n, self.read_elem(st, b, rk))), pats=[rk]))
        st.assume(qall([j, k], z3.Implies(z3.And(0 <= j, j < k, k < r.n), z3.Select(r.a, j) < rk), pats=[z3.MultiPattern(z3.Select(r.a, j), rk)]))
        bj = self.read_elem(st, b, j)
        st.assume(qall([j], z3.Implies(z3.And(j >= 0, j < n, bj), z3.And(w(j) >= 0, w(j) < r.n, z3.Select(r.a, w(j)) == j)), pats=[bj]))
        return Tup([st.alloc(r)])

    def l_np_mean(self, node, st):
        self.eval(node.args[0], st)
        return Sc("real", fresh("mean", REAL))

    def l_np_median(self, node, st):
        self.eval(node.args[0], st)
        return Sc("real", fresh("median", REAL))

    def l_numba_typed_List(self, node, st):
        return self.eval(node.args[0], st)

    def l_np_power(self, node, st):
        a = self.eval(node.args[0], st)
        b = self.eval(node.args[1], st)
        return self.binop(ast.Pow(), a, b, node, st)

    def l_np_dot(self, node, st):
        raise VCError("np.dot at line %d" % node.lineno)

    def l_np_bincount(self, node, st):
        raise VCError("np.bincount at line %d" % node.lineno)
