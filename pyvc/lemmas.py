"""Lemmas about the recursive spec functions, proved on every run.

ksum(keys, vals, K, lo, hi) = sum of vals[p] over lo <= p < hi with keys[p] == K  (recursive on hi).

The contracts use three lemmas about it.  ksum_split and ksum_shift are proved here by induction: the generator states the
induction scheme over the natural number (base case and step case as two z3 queries each); the scheme itself - "base and
step imply the statement for every n >= 0" - is the one meta-step not checked by a machine.  ksum_perm (invariance under a
permutation) is TRUSTED by the z3 side; lean/KsumPerm.lean states and proves it with Mathlib (checked by the thorough tier)."""
import time
import z3

I, R = z3.IntSort(), z3.RealSort()


def ksum_fn(kk, cache):
    key = "ksum_" + kk
    if key not in cache:
        ks = I if kk == "int" else R
        f = z3.RecFunction(key, z3.ArraySort(I, ks), z3.ArraySort(I, R), ks, I, I, R)
        ka, va = z3.Const("ka!ks", z3.ArraySort(I, ks)), z3.Const("va!ks", z3.ArraySort(I, R))
        K, lo, hi = z3.Const("K!ks", ks), z3.Int("lo!ks"), z3.Int("hi!ks")
        z3.RecAddDefinition(f, [ka, va, K, lo, hi],
                            z3.If(hi <= lo, z3.RealVal(0), f(ka, va, K, lo, hi - 1) + z3.If(z3.Select(ka, hi - 1) == K, z3.Select(va, hi - 1), z3.RealVal(0))))
        cache[key] = f
    return cache[key]


def _prove(hyps, goal, timeout_ms):
    s = z3.Solver()
    s.set("timeout", timeout_ms)
    for h in hyps:
        s.add(h)
    s.add(z3.Not(goal))
    t0 = time.time()
    r = s.check()
    return ("unsat" if r == z3.unsat else "sat" if r == z3.sat else "unknown"), round(time.time() - t0, 3)


def psum_fn(kind, cache):
    """Same definition as LibMixin.psum_fn (int / real element kinds)."""
    key = "psum_" + kind
    if key not in cache:
        srt = I if kind == "int" else R
        f = z3.RecFunction(key, z3.ArraySort(I, srt), I, srt)
        a, k = z3.Const("a!ps", z3.ArraySort(I, srt)), z3.Int("k!ps")
        zero = z3.RealVal(0) if kind == "real" else z3.IntVal(0)
        z3.RecAddDefinition(f, [a, k], z3.If(k <= 0, zero, f(a, k - 1) + z3.Select(a, k - 1)))
        cache[key] = f
    return cache[key]


def obligations(timeout_ms=20000):
    """[(name, note, verdict, seconds)] - every lemma instance kind used by the contracts, for int and real keys."""
    from .lib import _RECFUNS
    out = []
    for kind in ("int", "real"):
        srt = I if kind == "int" else R
        f = psum_fn(kind, _RECFUNS)
        a = z3.Const("a", z3.ArraySort(I, srt))
        i, n, k = z3.Ints("i n k")
        zero = z3.RealVal(0) if kind == "real" else z3.IntVal(0)
        nonneg = lambda m: z3.ForAll([k], z3.Implies(z3.And(k >= 0, k < m), z3.Select(a, k) >= zero))
        # psum_bound(a, i, n): by induction on n >= i + 1
        P = lambda m: z3.Implies(nonneg(m), z3.And(f(a, i + 1) == f(a, i) + z3.Select(a, i), f(a, i) + z3.Select(a, i) <= f(a, m)))
        out.append(("psum_bound[%s]/base" % kind, "n = i + 1", ) + _prove([i >= 0], P(i + 1), timeout_ms))
        out.append(("psum_bound[%s]/step" % kind, "P(n) and n >= i + 1  ==>  P(n+1)", ) + _prove([i >= 0, n >= i + 1, P(n)], P(n + 1), timeout_ms))
        # psum_monotone(a, n), its three quantified forms, each by induction on the upper index j
        j = z3.Int("j")
        Q1 = lambda m: z3.Implies(z3.And(nonneg(n), 0 <= i, i <= m, m <= n), f(a, i) <= f(a, m))
        out.append(("psum_monotone[%s]/form1/base" % kind, "j = i", ) + _prove([], Q1(i), timeout_ms))
        out.append(("psum_monotone[%s]/form1/step" % kind, "Q(j) and j >= i  ==>  Q(j+1)", ) + _prove([j >= i, Q1(j)], Q1(j + 1), timeout_ms))
        Q2 = lambda m: z3.Implies(z3.And(nonneg(n), 0 <= i, i < m, m <= n), f(a, i) + z3.Select(a, i) <= f(a, m))
        out.append(("psum_monotone[%s]/form2/base" % kind, "j = i + 1", ) + _prove([], Q2(i + 1), timeout_ms))
        out.append(("psum_monotone[%s]/form2/step" % kind, "Q(j) and j >= i + 1  ==>  Q(j+1)", ) + _prove([j >= i + 1, Q2(j)], Q2(j + 1), timeout_ms))
        out.append(("psum_monotone[%s]/form3" % kind, "unfolding: 0 <= i  ==>  psum(a, i+1) == psum(a, i) + a[i]", )
                   + _prove([i >= 0], f(a, i + 1) == f(a, i) + z3.Select(a, i), timeout_ms))
    for kk in ("int", "real"):
        ks = I if kk == "int" else R
        f = ksum_fn(kk, _RECFUNS)
        k, v = z3.Const("k", z3.ArraySort(I, ks)), z3.Const("v", z3.ArraySort(I, R))
        K = z3.Const("K", ks)
        lo, m, h = z3.Ints("lo m h")
        # split: P(h) := ksum(lo,h) == ksum(lo,m) + ksum(m,h)   for h >= m >= lo
        P = lambda x: f(k, v, K, lo, x) == f(k, v, K, lo, m) + f(k, v, K, m, x)
        out.append(("ksum_split[%s]/base" % kk, "h = m", ) + _prove([lo <= m], P(m), timeout_ms))
        out.append(("ksum_split[%s]/step" % kk, "P(h) and h >= m  ==>  P(h+1)", ) + _prove([lo <= m, h >= m, P(h)], P(h + 1), timeout_ms))
        for kk2 in ("int", "real"):
            ks2 = I if kk2 == "int" else R
            f2 = ksum_fn(kk2, _RECFUNS)
            k2, v2 = z3.Const("k2", z3.ArraySort(I, ks2)), z3.Const("v2", z3.ArraySort(I, R))
            # one mathematical key K (an integer), seen through each array's element type
            Kint = z3.Int("Kint")
            K1 = z3.ToReal(Kint) if kk == "real" else Kint
            K2 = z3.ToReal(Kint) if kk2 == "real" else Kint
            lo2, n, j = z3.Ints("lo2 n j")
            t1 = lambda x: z3.If(z3.Select(k, x) == K1, z3.Select(v, x), z3.RealVal(0))
            t2 = lambda x: z3.If(z3.Select(k2, x) == K2, z3.Select(v2, x), z3.RealVal(0))
            prem = lambda nn: z3.ForAll([j], z3.Implies(z3.And(j >= 0, j < nn), t1(lo + j) == t2(lo2 + j)))
            eq = lambda nn: f(k, v, K1, lo, lo + nn) == f2(k2, v2, K2, lo2, lo2 + nn)
            out.append(("ksum_shift[%s,%s]/base" % (kk, kk2), "n = 0", ) + _prove([], z3.Implies(prem(0), eq(0)), timeout_ms))
            out.append(("ksum_shift[%s,%s]/step" % (kk, kk2), "(premise(n) ==> eq(n)) and premise(n+1)  ==>  eq(n+1)", )
                       + _prove([n >= 0, z3.Implies(prem(n), eq(n)), prem(n + 1)], eq(n + 1), timeout_ms))
    return out
