"""Command line: python3-vt -m pyvc.run <qualified function> ...  (debug driver)."""
import os, sys, json
if os.environ.get("PYTHONHASHSEED") != "0":   # same query text on every run (see ./check)
    os.environ["PYTHONHASHSEED"] = "0"
    os.execv(sys.executable, [sys.executable, "-m", "pyvc.run"] + sys.argv[1:])
sys.path.insert(0, "/verif")
from pyvc.core import Verifier
import contracts as C

def main():
    contracts, macros = C.load_all()
    v = Verifier(contracts, macros)
    for qn in [a for a in sys.argv[1:] if not a.startswith("-")]:
        if qn not in contracts:
            cands = [k for k in contracts if k.endswith("::" + qn)]
            qn = cands[0]
        c = contracts[qn]
        for variant in (c.get("variants") or [None]):
            r = v.verify(qn, variant)
            bad = [o for o in r["obligations"] if o["verdict"] != "unsat"]
            print("== %s %s: %d obligations, %d not discharged, paths %d, %.1fs, error=%s" % (
                qn, variant or "", len(r["obligations"]), len(bad), r["paths"], r["wall_s"], r["error"]))
            for o in bad:
                print("   FAIL", o["verdict"], o["name"], "|", o["note"][:150], "| model:", json.dumps(o["model"])[:300], o["trace"][-4:])
            for cn in r["canaries"]:
                if not cn["reachable"]:
                    print("   DEAD", cn)
            if "-t" in sys.argv:
                print("   SOLVER", r.get("solver"))
                for o in sorted(r["obligations"], key=lambda o: -o["ms"])[:8]:
                    print("   SLOW %.0fms" % o["ms"], o["verdict"], o["name"], o["note"][:90])
            if "-v" in sys.argv:
                for o in r["obligations"]:
                    print("   ", o["verdict"], o["backend"], "%.0fms" % o["ms"], o["name"], o["note"][:80])

main()
