"""Contract expressions: python expressions + forall/exists/implies/old/... evaluated symbolically."""
import ast
import copy
import z3
from .values import *  # noqa
from .expr import zint, ite, zmax, zmin, is_true, is_false


class _Subst(ast.NodeTransformer):
    def __init__(self, mapping):
        self.mapping = mapping

    def visit_Name(self, node):
        if node.id in self.mapping:
            return copy.deepcopy(self.mapping[node.id])
        return node


class SpecMixin:
    SPEC_FUNCS = {"forall", "exists", "forall2", "implies", "iff", "old", "strictly_increasing", "nondecreasing",
                  "member", "psum", "same", "ite", "unchanged", "is_none", "card", "psum_monotone", "mpow", "wsum", "intro_all", "intro", "dict_values_in", "lemma", "ksum", "ksum_split", "ksum_shift", "ksum_perm", "is_int", "define", "by", "psum_bound", "unfold"}

    def parse_spec(self, src):
        if src not in self._spec_cache:
            self._spec_cache[src] = ast.parse(src.strip(), mode="eval").body
        return self._spec_cache[src]

    def spec_val(self, src, st):
        saved, self.spec = self.spec, True
        try:
            return self.eval(self.expand_macros(self.parse_spec(src)), st)
        finally:
            self.spec = saved

    def spec_bool(self, src, st, assume=False):
        saved_a, self.assuming = self.assuming, assume
        try:
            return truth(self.spec_val(src, st))
        finally:
            self.assuming = saved_a

    def spec_int(self, src, st):
        return to_int(self.spec_val(src, st))

    def expand_macros(self, node):
        macros = {k: v for k, v in (self.macros or {}).items() if k not in self.abstract_macros}
        if not macros:
            return node

        class M(ast.NodeTransformer):
            def visit_Call(s, n):
                n = s.generic_visit(n)
                if isinstance(n.func, ast.Name) and n.func.id in macros:
                    params, body = macros[n.func.id]
                    tree = ast.parse(body.strip(), mode="eval").body
                    tree = _Subst(dict(zip(params, n.args))).visit(tree)
                    return s.visit(tree)
                return n
        return M().visit(copy.deepcopy(node))

    def run_ghost(self, src, st):
        """Execute ghost statements (contract text) on the state; they must not fork."""
        if not src:
            return
        if isinstance(src, (list, tuple)):
            src = "\n".join(src)
        stmts = [self.expand_macros(x) for x in ast.parse(src).body]
        saved, self.spec = self.spec, True
        try:
            outs = self.exec_block(stmts, st)
        finally:
            self.spec = saved
        if len(outs) != 1 or outs[0][0] != "normal" or outs[0][1] is not st:
            raise VCError("ghost code must be straight-line: %r" % src)

    def ghost_stmts(self, lc):
        out = []
        for key in ("ghost_step",):
            src = lc.get(key)
            if src:
                if isinstance(src, (list, tuple)):
                    src = "\n".join(src)
                out += ast.parse(src).body
        return out

    # ---- quantifiers
    def _quant(self, node, st, nvars, is_forall):
        lo = self.eval_int(node.args[0], st)
        hi = self.eval_int(node.args[1], st)
        lam = node.args[2]
        if not isinstance(lam, ast.Lambda) or len(lam.args.args) != nvars:
            raise VCError("quantifier needs a lambda with %d parameter(s)" % nvars)
        names = [a.arg for a in lam.args.args]
        ks = [fresh(nm, INT) for nm in names]
        saved = {nm: st.vars.get(nm) for nm in names}
        n0 = len(st.pc)
        rng = z3.And(*[z3.And(k >= lo, k < hi) for k in ks])
        st.guards.append(rng)
        for nm, k in zip(names, ks):
            st.vars[nm] = (Sc("int", k), True)
        inner_q = None
        try:
            bv = self.eval(lam.body, st)
            inner_q = getattr(bv, "qinfo", None)
            body = truth(bv)
        finally:
            st.guards.pop()
            extra = st.pc[n0:]
            del st.pc[n0:]
            for nm in names:
                if saved[nm] is None:
                    st.vars.pop(nm, None)
                else:
                    st.vars[nm] = saved[nm]
        # facts generated while evaluating the body (elementwise definitions ...) stay valid globally
        for e in extra:  # each already has the form guards -> fact, with the range among the guards
            st.pc.append(z3.ForAll(ks, e))
        if is_forall:
            if inner_q is not None:
                # forall k: forall j: ...  ->  one quantifier over (k, j): far easier to instantiate
                ivars, irng, ibody = inner_q
                r = Sc("bool", z3.ForAll(ks + ivars, z3.Implies(z3.And(rng, irng), ibody)))
                r.qinfo = (ks + ivars, z3.And(rng, irng), ibody)
                return r
            r = Sc("bool", z3.ForAll(ks, z3.Implies(rng, body)))
            r.qinfo = (ks, rng, body)
            return r
        return Sc("bool", z3.Exists(ks, z3.And(rng, body)))

    def spec_forall(self, node, st):
        return self._quant(node, st, 1, True)

    def spec_forall2(self, node, st):
        return self._quant(node, st, 2, True)

    def spec_exists(self, node, st):
        return self._quant(node, st, 1, False)

    def spec_implies(self, node, st):
        a = truth(self.eval(node.args[0], st))
        if is_false(a):
            return Sc("bool", z3.BoolVal(True))
        st.guards.append(a)
        try:
            b = truth(self.eval(node.args[1], st))
        finally:
            st.guards.pop()
        return Sc("bool", z3.Implies(a, b))

    def spec_iff(self, node, st):
        a = truth(self.eval(node.args[0], st))
        b = truth(self.eval(node.args[1], st))
        return Sc("bool", a == b)

    def spec_ite(self, node, st):
        c = truth(self.eval(node.args[0], st))
        a = self.eval(node.args[1], st)
        b = self.eval(node.args[2], st)
        return self.merge_vals(c, a, b, node)

    def spec_is_none(self, node, st):
        return Sc("bool", z3.BoolVal(isinstance(self.eval(node.args[0], st), NoneV)))

    def spec_old(self, node, st):
        if st.old is None:
            raise VCError("old() outside a postcondition")
        tmp = st.old.fork()
        tmp.pc = st.pc  # share: facts derived while evaluating are kept
        tmp.guards = st.guards
        tmp.ghost = st.ghost
        v = self.eval(node.args[0], tmp)
        return self.freeze_old(v, tmp, st)

    def freeze_old(self, v, tmp, st):
        """Values read through old() keep pointing at the entry-time heap contents."""
        if isinstance(v, Ref):
            key = ("old", v.ref)
            if key not in st.ghost:
                r = fresh_id()
                st.ghost[key] = r
            st.heap[st.ghost[key]] = tmp.obj(v)
            return Ref(st.ghost[key])
        if isinstance(v, View):
            r = self.freeze_old(Ref(v.ref), tmp, st)
            return View(r.ref, v.start, v.step, v.n)
        if isinstance(v, Tup):
            return Tup([self.freeze_old(x, tmp, st) for x in v.items], v.names, v.tname)
        return v

    def seq_range(self, node, st):
        v = self.eval(node.args[0], st)
        lo = self.eval_int(node.args[1], st) if len(node.args) > 1 else zint(0)
        hi = self.eval_int(node.args[2], st) if len(node.args) > 2 else self.length_of(st, v)
        return v, lo, hi

    def spec_strictly_increasing(self, node, st, strict=True):
        v, lo, hi = self.seq_range(node, st)
        j, k = fresh("j", INT), fresh("k", INT)
        ej, ek = self.read_elem(st, v, j), self.read_elem(st, v, k)
        cmp2 = (ej < ek) if strict else (ej <= ek)
        pair = qall([j, k], z3.Implies(z3.And(lo <= j, j < k, k < hi), cmp2), pats=[z3.MultiPattern(ej, ek)])
        e1 = self.read_elem(st, v, k + 1)
        adj = qall([k], z3.Implies(z3.And(lo <= k, k + 1 < hi), (ek < e1) if strict else (ek <= e1)))
        if self.assuming:
            return Sc("bool", z3.And(pair, adj))
        # as a goal the adjacent form is proved; adjacent => pairwise is the (trusted) induction lemma
        self.trust("lemma: adjacent-ordered implies pairwise-ordered (induction on distance; stated, standard)")
        return Sc("bool", adj)

    def spec_nondecreasing(self, node, st):
        return self.spec_strictly_increasing(node, st, strict=False)

    def spec_member(self, node, st):
        x = self.eval(node.args[0], st)
        v = self.eval(node.args[1], st)
        lo = self.eval_int(node.args[2], st) if len(node.args) > 2 else zint(0)
        hi = self.eval_int(node.args[3], st) if len(node.args) > 3 else self.length_of(st, v)
        k = fresh("k", INT)
        return Sc("bool", z3.Exists([k], z3.And(k >= lo, k < hi, self.read_elem(st, v, k) == x.t)))

    def spec_psum(self, node, st):
        v = self.eval(node.args[0], st)
        k = self.eval_int(node.args[1], st)
        kind = self.elem_kind(st, v)
        return Sc("int" if kind == "bool" else kind, self.psum_fn(kind)(self.as_z3_array(st, v), k))

    def spec_psum_monotone(self, node, st):
        """LEMMA (trusted, induction): for an array with non-negative entries on [0, n) the prefix sums are non-decreasing.
        Usable in `lemmas`; the non-negativity premise is part of the formula, so nothing is assumed about the data."""
        v = self.eval(node.args[0], st)
        n = self.eval_int(node.args[1], st) if len(node.args) > 1 else self.length_of(st, v)
        kind = self.elem_kind(st, v)
        f = self.psum_fn(kind)
        a = self.as_z3_array(st, v)
        i, j, k = fresh("i", INT), fresh("j", INT), fresh("k", INT)
        zero = z3.RealVal(0) if kind == "real" else zint(0)
        nonneg = z3.ForAll([k], z3.Implies(z3.And(k >= 0, k < n), z3.Select(a, k) >= zero))
        self.lemmas_used.add("psum_monotone")   # proved by induction in pyvc/lemmas.py (lemma::ksum obligations)
        if not z3.is_const(a):
            a_c = fresh("lensarr", a.sort())
            st.assume(a_c == a)
            a = a_c
        self._last_lemma = (nonneg, None)
        concl = z3.And(
            qall([i, j], z3.Implies(z3.And(0 <= i, i <= j, j <= n), f(a, i) <= f(a, j)), pats=[z3.MultiPattern(f(a, i), f(a, j))]),
            qall([i, j], z3.Implies(z3.And(0 <= i, i < j, j <= n), f(a, i) + z3.Select(a, i) <= f(a, j)), pats=[z3.MultiPattern(f(a, i), f(a, j))]),
            qall([i], z3.Implies(z3.And(0 <= i, i < n), f(a, i + 1) == f(a, i) + z3.Select(a, i)), pats=[f(a, i + 1)]),
            f(a, zint(0)) == zero)
        self._last_lemma = (nonneg, concl)
        return Sc("bool", z3.Implies(nonneg, concl))
        return Sc("bool", z3.Implies(nonneg, z3.And(
            qall([i, j], z3.Implies(z3.And(0 <= i, i <= j, j <= n), f(a, i) <= f(a, j)), pats=[z3.MultiPattern(f(a, i), f(a, j))]),
            qall([i, j], z3.Implies(z3.And(0 <= i, i < j, j <= n), f(a, i) + z3.Select(a, i) <= f(a, j)), pats=[z3.MultiPattern(f(a, i), f(a, j))]),
            qall([i], z3.Implies(z3.And(0 <= i, i < n), f(a, i + 1) == f(a, i) + z3.Select(a, i)), pats=[f(a, i + 1)]),
            f(a, zint(0)) == zero)))

    def _mat_defs(self, st):
        """Spec functions over the uninterpreted matrix ring, with their defining equations (definitions, not assumptions
        about the code): mpow(A, k) = A @ ... @ A (k factors, k >= 1); wsum(A, w, k) = sum_{t<k} w[t] * A^(t+1)."""
        if "mpow" not in self.ufuncs:
            mp = z3.Function("mpow", MAT, INT, MAT)
            ws = z3.Function("wsum", MAT, arr_sort("real"), INT, MAT)
            self.ufuncs["mpow"], self.ufuncs["wsum"] = mp, ws
        mp, ws = self.ufuncs["mpow"], self.ufuncs["wsum"]
        if "matdefs" not in self.ufuncs:
            A, w, k = z3.Const("A!md", MAT), z3.Const("w!md", arr_sort("real")), z3.Int("k!md")
            self.ufuncs["matdefs"] = [
                z3.ForAll([A], mp(A, 1) == A),
                z3.ForAll([A, k], z3.Implies(k >= 1, mp(A, k + 1) == M_MUL(mp(A, k), A)), patterns=[mp(A, k + 1)]),
                z3.ForAll([A, w], ws(A, w, 1) == M_SMUL(A, z3.Select(w, 0))),
                z3.ForAll([A, w, k], z3.Implies(k >= 1, ws(A, w, k + 1) == M_ADD(ws(A, w, k), M_SMUL(mp(A, k + 1), z3.Select(w, k)))), patterns=[ws(A, w, k + 1)]),
            ]
        axs = self.ufuncs["matdefs"]
        if not any(axs[0].eq(c) for c in st.pc):
            st.pc.extend(axs)   # definitions: unconditionally true, not subject to guards
        return mp, ws

    def spec_mpow(self, node, st):
        mp, ws = self._mat_defs(st)
        return Mat(mp(self.eval(node.args[0], st).t, self.eval_int(node.args[1], st)))

    def spec_wsum(self, node, st):
        mp, ws = self._mat_defs(st)
        w = self.eval(node.args[1], st)
        return Mat(ws(self.eval(node.args[0], st).t, self.as_z3_array(st, w), self.eval_int(node.args[2], st)))

    # ---- abstract predicates: a macro kept as an uninterpreted predicate of the *contents* of its argument
    def flatten_terms(self, st, v):
        if isinstance(v, Sc):
            return [v.t]
        if isinstance(v, Tup):
            out = []
            for x in v.items:
                out += self.flatten_terms(st, x)
            return out
        if isinstance(v, (Ref, View)) and self.is_arr1(st, v):
            return [self.as_z3_array(st, v), self.length_of(st, v)]
        raise VCError("abstract predicate over %r" % (v,))

    def spec_abstract(self, name, node, st):
        v = self.eval(node.args[0], st)
        ts = self.flatten_terms(st, v)
        key = ("abs_" + name, tuple(str(t.sort()) for t in ts))
        if key not in self.ufuncs:
            self.ufuncs[key] = z3.Function("abs_" + name, *([t.sort() for t in ts] + [BOOL]))
        return Sc("bool", self.ufuncs[key](*ts))

    def _concrete_macro(self, name, argnode, st):
        saved = self.abstract_macros
        self.abstract_macros = set()
        try:
            call = ast.Call(func=ast.Name(id=name, ctx=ast.Load()), args=[argnode], keywords=[])
            return truth(self.eval(self.expand_macros(call), st))
        finally:
            self.abstract_macros = saved

    def spec_intro(self, node, st):
        """intro('WF', x): prove the concrete definition of the macro for x, then know the abstract predicate."""
        name = node.args[0].value
        goal = self._concrete_macro(name, node.args[1], st)
        saved, self.spec = self.spec, False
        try:
            self.oblige(st, "intro", node, goal, "definition of %s holds for %s (introduction of the abstract predicate)" % (name, ast.unparse(node.args[1])[:60]))
        finally:
            self.spec = saved
        call = ast.Call(func=ast.Name(id=name, ctx=ast.Load()), args=[node.args[1]], keywords=[])
        st.assume(self.spec_abstract(name, call, st).t)
        return Sc("bool", z3.BoolVal(True))

    def spec_intro_all(self, node, st):
        """intro_all('WF', lst): for an arbitrary index c prove the concrete definition for lst[c]; then forall c the abstract predicate."""
        name = node.args[0].value
        lst = node.args[1]
        n = self.length_of(st, self.eval(lst, st))
        c = fresh("c", INT)
        st.vars["__c"] = (Sc("int", c), True)
        elem = ast.Subscript(value=lst, slice=ast.Name(id="__c", ctx=ast.Load()), ctx=ast.Load())
        ast.fix_missing_locations(ast.copy_location(elem, node))
        st.guards.append(z3.And(c >= 0, c < n))
        try:
            goal = self._concrete_macro(name, elem, st)
            saved, self.spec = self.spec, False
            try:
                self.oblige(st, "intro", node, goal, "definition of %s holds for every element of %s (introduction of the abstract predicate)" % (name, ast.unparse(lst)[:60]))
            finally:
                self.spec = saved
            call = ast.Call(func=ast.Name(id=name, ctx=ast.Load()), args=[elem], keywords=[])
            ab = self.spec_abstract(name, call, st).t
        finally:
            st.guards.pop()
            del st.vars["__c"]
        # drop what oblige assumed for the one constant c and state it for all c
        st.assume(z3.ForAll([c], z3.Implies(z3.And(c >= 0, c < n), ab)))
        return Sc("bool", z3.BoolVal(True))

    def spec_psum_bound(self, node, st):
        """LEMMA (proved by induction in pyvc/lemmas.py): psum_bound(a, i, n): 0 <= i < n and a[k] >= 0 on [0, n)  ==>
        psum(a, i+1) == psum(a, i) + a[i]  and  psum(a, i) + a[i] <= psum(a, n).   A ground instance: nothing to instantiate."""
        v = self.eval(node.args[0], st)
        i, n = self.eval_int(node.args[1], st), self.eval_int(node.args[2], st)
        kind = self.elem_kind(st, v)
        f = self.psum_fn(kind)
        a = self.as_z3_array(st, v)
        k = fresh("k", INT)
        zero = z3.RealVal(0) if kind == "real" else zint(0)
        prem = z3.And(0 <= i, i < n, z3.ForAll([k], z3.Implies(z3.And(k >= 0, k < n), z3.Select(a, k) >= zero)))
        concl = z3.And(f(a, i + 1) == f(a, i) + z3.Select(a, i), f(a, i) + z3.Select(a, i) <= f(a, n))
        self.lemmas_used.add("psum_bound")
        self._last_lemma = (prem, concl, "0 <= i < n and the entries on [0, n) are non-negative")
        return Sc("bool", z3.Implies(prem, concl))

    def spec_dict_values_in(self, node, st):
        """dict_values_in(d, lo, hi): every value stored in d lies in [lo, hi)."""
        d = st.obj(self.eval(node.args[0], st))
        lo, hi = self.eval_int(node.args[1], st), self.eval_int(node.args[2], st)
        k = fresh("key", d.ksort)
        v = z3.Select(d.val, k)
        return Sc("bool", qall([k], z3.Implies(z3.Select(d.dom, k), z3.And(v >= lo, v < hi)), pats=[z3.Select(d.dom, k)]))

    LEMMA_FUNCS = {"psum_bound", "psum_monotone", "ksum_split", "ksum_shift", "ksum_perm"}

    # ---- keyed sums: ksum(keys, vals, K, lo, hi) = sum of vals[p] over lo <= p < hi with keys[p] == K
    def ksum_fn(self, kk):
        from .lib import _RECFUNS
        from . import lemmas
        return lemmas.ksum_fn(kk, _RECFUNS)

    def _ksum_parts(self, st, keys_node, vals_node):
        kv, vv = self.eval(keys_node, st), self.eval(vals_node, st)
        kk, vk = self.elem_kind(st, kv), self.elem_kind(st, vv)
        if kk not in ("int", "real") or vk != "real":
            raise VCError("ksum needs int/real keys and real values, got %s/%s" % (kk, vk))
        return kk, self.as_z3_array(st, kv), self.as_z3_array(st, vv)

    def _ksum_key(self, kk, K):
        return z3.ToReal(K) if kk == "real" else K

    def _ksum_term(self, kk, ka, va, K, idx):
        return ite(z3.Select(ka, idx) == self._ksum_key(kk, K), z3.Select(va, idx), z3.RealVal(0))

    def spec_ksum(self, node, st):
        kk, ka, va = self._ksum_parts(st, node.args[0], node.args[1])
        K, lo, hi = (self.eval_int(a, st) for a in node.args[2:5])
        return Sc("real", self.ksum_fn(kk)(ka, va, self._ksum_key(kk, K), lo, hi))

    def spec_by(self, node, st):
        """by(goal, fact1, fact2, ...): ghost code only - a local lemma.  Every fact is an obligation in the current context; the
        implication  fact1 and fact2 ... ==> goal  is an obligation discharged in ISOLATION (the facts are the only hypotheses:
        small non-linear arguments stay small); then goal is known.  Nothing is assumed."""
        if len(node.args) < 2:
            raise VCError("by(goal, facts...) needs at least one fact")
        goal = truth(self.eval(node.args[0], st))
        facts = [truth(self.eval(a, st)) for a in node.args[1:]]
        saved, self.spec = self.spec, False
        try:
            for a, f in zip(node.args[1:], facts):
                self.oblige(st, "by-premise", node, f, "fact used by a local lemma: %s" % ast.unparse(a)[:120])
            self.oblige_isolated(st, "by", node, facts, goal, "local lemma (facts ==> goal, proved in isolation): %s" % ast.unparse(node.args[0])[:120])
        finally:
            self.spec = saved
        return Sc("bool", z3.BoolVal(True))

    def spec_define(self, node, st):
        """define('F', lambda k: body): ghost code only - introduces a ghost function F: int -> int by its defining equation
        (forall k. F(k) == body(k), body evaluated in the current state).  Conservative: body is a total term of k."""
        name, lam = node.args[0].value, node.args[1]
        if not isinstance(lam, ast.Lambda) or len(lam.args.args) != 1:
            raise VCError("define needs a one-parameter lambda")
        g = fresh_func("g_" + name, INT, INT)
        k = fresh("k", INT)
        pn = lam.args.args[0].arg
        saved = st.vars.get(pn)
        st.vars[pn] = (Sc("int", k), True)
        try:
            body = self.eval_int(lam.body, st)
        finally:
            if saved is None:
                st.vars.pop(pn, None)
            else:
                st.vars[pn] = saved
        st.assume(z3.ForAll([k], g(k) == body, patterns=[g(k)]), derived=True)   # conservative: g is fresh
        st.ghost = dict(st.ghost)
        st.ghost[name] = g
        st.ghost["__def_" + name] = (g, k, body)
        return Sc("bool", z3.BoolVal(True))

    def spec_unfold(self, node, st):
        """unfold('F', e): ghost code only - states the instance F(e) == body(e) of F's defining equation (see define), so that the
        solver does not have to find it."""
        name = node.args[0].value
        d = st.ghost.get("__def_" + name)
        if d is None:
            raise VCError("unfold of %s: no definition in scope" % name)
        g, k, body = d
        arg = self.eval_int(node.args[1], st)
        st.assume(g(arg) == z3.substitute(body, (k, arg)), derived=True)
        return Sc("bool", z3.BoolVal(True))

    def spec_is_int(self, node, st):
        v = self.eval(node.args[0], st)
        return Sc("bool", z3.IsInt(v.t) if v.kind == "real" else z3.BoolVal(True))

    def spec_ksum_split(self, node, st):
        """LEMMA (proved by induction in pyvc/lemmas.py on every run): lo <= m <= hi  ==>  ksum(lo,hi) == ksum(lo,m) + ksum(m,hi)."""
        kk, ka, va = self._ksum_parts(st, node.args[0], node.args[1])
        K, lo, m, hi = (self.eval_int(a, st) for a in node.args[2:6])
        f, Kk = self.ksum_fn(kk), self._ksum_key(kk, K)
        prem = z3.And(lo <= m, m <= hi)
        concl = f(ka, va, Kk, lo, hi) == f(ka, va, Kk, lo, m) + f(ka, va, Kk, m, hi)
        self.lemmas_used.add("ksum_split")
        self._last_lemma = (prem, concl, "lo <= m <= hi")
        return Sc("bool", z3.Implies(prem, concl))

    def spec_ksum_shift(self, node, st):
        """LEMMA (proved by induction in pyvc/lemmas.py): two stretches of n entries whose keyed contributions agree position by
        position have the same keyed sum:  ksum_shift(k1, v1, lo1, k2, v2, lo2, K, n)."""
        kk1, ka1, va1 = self._ksum_parts(st, node.args[0], node.args[1])
        lo1 = self.eval_int(node.args[2], st)
        kk2, ka2, va2 = self._ksum_parts(st, node.args[3], node.args[4])
        lo2 = self.eval_int(node.args[5], st)
        K, n = self.eval_int(node.args[6], st), self.eval_int(node.args[7], st)
        j = fresh("j", INT)
        prem = z3.And(n >= 0, z3.ForAll([j], z3.Implies(z3.And(j >= 0, j < n),
                      self._ksum_term(kk1, ka1, va1, K, lo1 + j) == self._ksum_term(kk2, ka2, va2, K, lo2 + j))))
        concl = self.ksum_fn(kk1)(ka1, va1, self._ksum_key(kk1, K), lo1, lo1 + n) == self.ksum_fn(kk2)(ka2, va2, self._ksum_key(kk2, K), lo2, lo2 + n)
        self.lemmas_used.add("ksum_shift")
        self._last_lemma = (prem, concl, "keyed contributions agree position by position on the n entries")
        return Sc("bool", z3.Implies(prem, concl))

    def spec_ksum_perm(self, node, st):
        """LEMMA (TRUSTED here; Lean proof in lean/KsumPerm.lean): if perm is an injection of [0,n) into [0,n) and entry lo+j of
        (k2,v2) is entry lo+perm[j] of (k1,v1), the keyed sums over [lo, lo+n) agree:  ksum_perm(k1, v1, k2, v2, perm, K, lo, n)."""
        kk1, ka1, va1 = self._ksum_parts(st, node.args[0], node.args[1])
        kk2, ka2, va2 = self._ksum_parts(st, node.args[2], node.args[3])
        pv = self.eval(node.args[4], st)
        pa = self.as_z3_array(st, pv)
        K, lo, n = (self.eval_int(a, st) for a in node.args[5:8])
        i, j = fresh("i", INT), fresh("j", INT)
        prem = z3.And(
            n >= 0,
            z3.ForAll([j], z3.Implies(z3.And(j >= 0, j < n), z3.And(z3.Select(pa, j) >= 0, z3.Select(pa, j) < n))),
            z3.ForAll([i, j], z3.Implies(z3.And(0 <= i, i < j, j < n), z3.Select(pa, i) != z3.Select(pa, j))),
            z3.ForAll([j], z3.Implies(z3.And(j >= 0, j < n), z3.And(z3.Select(ka2, lo + j) == z3.Select(ka1, lo + z3.Select(pa, j)),
                                                                     z3.Select(va2, lo + j) == z3.Select(va1, lo + z3.Select(pa, j))))))
        concl = self.ksum_fn(kk1)(ka1, va1, self._ksum_key(kk1, K), lo, lo + n) == self.ksum_fn(kk2)(ka2, va2, self._ksum_key(kk2, K), lo, lo + n)
        self.trust("lemma: a keyed sum is invariant under a permutation of the summed stretch (stated; Lean proof lean/KsumPerm.lean checked by the thorough tier)")
        self.lemmas_used.add("ksum_perm")
        self._last_lemma = (prem, concl, "perm is an injection of [0,n) into itself and (k2,v2)[lo+j] == (k1,v1)[lo+perm[j]]")
        return Sc("bool", z3.Implies(prem, concl))


    def spec_lemma(self, node, st):
        """lemma(psum_monotone(...)): in ghost code, add an instance of a (stated, trusted) lemma to what is known.  Only the
        named lemma functions are accepted, so that ghost code cannot assume arbitrary facts."""
        inner = node.args[0]
        if not (isinstance(inner, ast.Call) and isinstance(inner.func, ast.Name) and inner.func.id in self.LEMMA_FUNCS):
            raise VCError("lemma() accepts only %s" % sorted(self.LEMMA_FUNCS))
        self._last_lemma = None
        whole = truth(self.eval(inner, st))
        # lemma(L, guard): the instance is only wanted where `guard` holds (ghost code is straight-line): the premise is obliged
        # under the guard and the conclusion is known under the guard
        guard = truth(self.eval(node.args[1], st)) if len(node.args) > 1 else None
        if guard is not None:
            if not (self._last_lemma and self._last_lemma[1] is not None):
                raise VCError("guarded lemma() needs a lemma with an explicit premise")
            self._last_lemma = (z3.Implies(guard, self._last_lemma[0]), z3.Implies(guard, self._last_lemma[1])) + tuple(self._last_lemma[2:])
        if self._last_lemma and self._last_lemma[1] is not None:
            premise, concl = self._last_lemma[:2]
            why = self._last_lemma[2] if len(self._last_lemma) > 2 else "entries non-negative"
            saved, self.spec = self.spec, False
            try:
                self.oblige(st, "lemma-premise", node, premise, "premise of %s (%s)" % (ast.unparse(inner)[:80], why))
            finally:
                self.spec = saved
            st.assume(concl, derived=True)   # a consequence of the recursive definitions (lemma proved in pyvc/lemmas.py), premise obliged above
        else:
            st.assume(whole, derived=True)
        return Sc("bool", z3.BoolVal(True))

    def spec_same(self, node, st):
        """same(a, b): the two expressions denote the same heap object."""
        a = self.eval(node.args[0], st)
        b = self.eval(node.args[1], st)
        return Sc("bool", z3.BoolVal(isinstance(a, Ref) and isinstance(b, Ref) and a.ref == b.ref))

    def spec_unchanged(self, node, st):
        """unchanged(e): the object that e denoted at function entry has the same contents and length now
        (whatever the name is bound to now)."""
        tmp = st.old.fork()
        tmp.pc = st.pc
        tmp.guards = st.guards
        then = self.eval(node.args[0], tmp)
        if not isinstance(then, Ref):
            raise VCError("unchanged() of non-object")
        o1, o0 = st.obj(then), st.old.obj(then)
        if isinstance(o1, HArr):
            k = fresh("k", INT)
            return Sc("bool", z3.And(o1.n == o0.n,
                                     z3.ForAll([k], z3.Implies(z3.And(k >= 0, k < o0.n), z3.Select(o1.a, k) == z3.Select(o0.a, k)))))
        if isinstance(o1, HDict):
            return Sc("bool", z3.And(o1.dom == o0.dom, o1.val == o0.val, o1.size == o0.size))
        if isinstance(o1, HListTup):
            k = fresh("k", INT)
            return Sc("bool", z3.And(o1.n == o0.n, z3.ForAll([k], z3.Implies(z3.And(k >= 0, k < o0.n),
                      z3.And(*[z3.Select(c1, k) == z3.Select(c0, k) for c1, c0 in zip(o1.cols, o0.cols)])))))
        raise VCError("unchanged() of %r" % o1)

    def spec_card(self, node, st):
        v = self.eval(node.args[0], st)
        return Sc("int", self.length_of(st, v))

    # ---- symbolic values from type descriptions
    def make_value(self, ty, st, prefix):
        ty = ty.strip()
        if ty in ("int", "real", "bool"):
            return Sc(ty, fresh(prefix, SORTS[ty]))
        if ty == "none":
            return NONE
        if ty == "mat":
            return Mat(fresh(prefix, MAT))
        if ty.startswith("struct{") and ty.endswith("}"):
            fields = [f.strip().split(":") for f in ty[7:-1].split(",")]
            return Tup([self.make_value(t.strip(), st, "%s_%s" % (prefix, n.strip())) for n, t in fields], [n.strip() for n, t in fields], "struct")
        if ty.startswith("strconst:"):
            return StrC(ty.split(":", 1)[1])
        if ty in ("int[]", "real[]", "bool[]"):
            o = new_arr(ty[:-2], prefix)
            st.assume(o.n >= 0)
            return st.alloc(o)
        if ty in ("int[,]", "real[,]", "bool[,]"):
            kind = ty[:-3]
            o = HArr2(kind, fresh(prefix, z3.ArraySort(INT, arr_sort(kind))), fresh(prefix + "_n", INT), fresh(prefix + "_m", INT))
            st.assume(z3.And(o.n >= 0, o.m >= 0))
            return st.alloc(o)
        if ty in ("list[int]", "list[real]", "list[bool]"):
            o = new_arr(ty[5:-1], prefix, is_list=True)
            st.assume(o.n >= 0)
            return st.alloc(o)
        if ty in ("list[int[]]", "list[real[]]"):
            kind = ty[5:-3]
            o = HListArr(kind, fresh(prefix, z3.ArraySort(INT, arr_sort(kind))), fresh(prefix + "_lens", z3.ArraySort(INT, INT)), fresh(prefix + "_n", INT))
            k = fresh("k", INT)
            st.assume(o.n >= 0)
            st.assume(qall([k], z3.Select(o.lens, k) >= 0, pats=[z3.Select(o.lens, k)]))
            return st.alloc(o)
        if ty.startswith("list[real[,") and ty.endswith("]]"):
            m = int(ty[len("list[real[,"):-2])
            o = HListArr2("real", fresh(prefix, z3.ArraySort(INT, z3.ArraySort(INT, arr_sort("real")))), fresh(prefix + "_lens", z3.ArraySort(INT, INT)), fresh(prefix + "_n", INT), zint(m))
            k = fresh("k", INT)
            st.assume(o.n >= 0)
            st.assume(qall([k], z3.Select(o.lens, k) >= 0, pats=[z3.Select(o.lens, k)]))
            return st.alloc(o)
        if ty == "str":
            o = HStr(fresh(prefix, arr_sort("int")), fresh(prefix + "_n", INT))
            k = fresh("k", INT)
            st.assume(o.n >= 0)
            st.assume(qall([k], z3.And(z3.Select(o.a, k) >= 0, z3.Select(o.a, k) <= 1114111), pats=[z3.Select(o.a, k)]))
            return st.alloc(o)
        if ty == "list[str]":
            o = HListStr(fresh(prefix, z3.ArraySort(INT, arr_sort("int"))), fresh(prefix + "_lens", z3.ArraySort(INT, INT)), fresh(prefix + "_n", INT))
            j, k = fresh("j", INT), fresh("k", INT)
            st.assume(o.n >= 0)
            st.assume(qall([k], z3.Select(o.lens, k) >= 0, pats=[z3.Select(o.lens, k)]))
            st.assume(qall([j, k], z3.And(z3.Select(z3.Select(o.a, j), k) >= 0, z3.Select(z3.Select(o.a, j), k) <= 1114111),
                                pats=[z3.Select(z3.Select(o.a, j), k)]))
            return st.alloc(o)
        if ty.startswith("list[(") and ty.endswith(")]"):
            parts = [k.strip() for k in ty[6:-2].split(",")]
            names = [p.split(":")[0].strip() for p in parts] if all(":" in p for p in parts) else None
            kinds = [p.split(":")[-1].strip() for p in parts]
            o = HListTup(kinds, [fresh(prefix, arr_sort(k)) for k in kinds], fresh(prefix + "_n", INT), names)
            st.assume(o.n >= 0)
            return st.alloc(o)
        if ty.startswith("dict[") and ty.endswith("]"):
            kd, vk = [x.strip() for x in ty[5:-1].split(",")]
            ks = PAIR_SORT if kd == "pair" else INT
            o = HDict(ks, vk, fresh(prefix + "_dom", z3.ArraySort(ks, BOOL)), fresh(prefix + "_val", z3.ArraySort(ks, SORTS[vk])), fresh(prefix + "_size", INT), kd)
            st.assume(o.size >= 0)
            return st.alloc(o)
        if ty.startswith("set[") and ty.endswith("]"):
            kd = ty[4:-1].strip()
            ks = PAIR_SORT if kd == "pair" else INT
            o = HSet(ks, fresh(prefix + "_dom", z3.ArraySort(ks, BOOL)), fresh(prefix + "_size", INT), kd)
            st.assume(o.size >= 0)
            return st.alloc(o)
        if ty.startswith("(") and ty.endswith(")"):
            parts = self.split_types(ty[1:-1])
            return Tup([self.make_value(p, st, "%s_%d" % (prefix, i)) for i, p in enumerate(parts)])
        if ty == "coo":
            names = ["row", "col", "val", "key", "ind", "min", "depth"]
            kinds = ["int", "int", "real", "int", "int", "int", "int"]
            items = [self.make_value(k + "[]", st, "%s_%s" % (prefix, nm)) for nm, k in zip(names, kinds)]
            return Tup(items, names, "CooArray")
        if ty == "funcs":
            f = Fn(prefix.split("p_")[-1], "param")
            f.is_tuple = True
            return f
        if ty.startswith("func"):
            return Fn(prefix.split("p_")[-1], "param")
        if ty == "opaque":
            return Opaque(prefix)
        raise VCError("unknown type description %r" % ty)

    def split_types(self, s):
        parts, depth, cur = [], 0, ""
        for ch in s:
            if ch in "([":
                depth += 1
            if ch in ")]":
                depth -= 1
            if ch == "," and depth == 0:
                parts.append(cur)
                cur = ""
            else:
                cur += ch
        if cur.strip():
            parts.append(cur)
        return [p.strip() for p in parts]

    def str_key(self, st, kv, node):
        """Int key denoting the *content* of a (sub)string value."""
        f = self.ufunc("substr_key", [arr_sort("int"), INT, INT], INT)
        if isinstance(kv, View):
            o = st.obj(kv.ref)
            return f(o.a, kv.start, kv.n)
        if isinstance(kv, Ref):
            o = st.obj(kv)
            return f(o.a, zint(0), o.n)
        if isinstance(kv, Opaque) and isinstance(kv.tag, tuple) and kv.tag[0] == "strkey":
            return kv.tag[1]
        if isinstance(kv, Sc):
            return kv.t
        raise VCError("string key %r at line %d" % (kv, node.lineno))
