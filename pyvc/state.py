"""Execution state of the symbolic executor."""
import z3
from .values import *  # noqa


class State:
    def __init__(self):
        self.vars = {}  # name -> (Val, defined) ; defined is True or a z3 Bool
        self.heap = {}  # ref -> heap object (treated as immutable: clone before change)
        self.pc = []  # path condition (list of z3 Bool)
        self.guards = []  # conditions under which the current sub-expression is evaluated
        self.ghost = {}  # ghost namespace for contracts (name -> Val or z3 FuncDecl)
        self.old = None  # State snapshot at function entry (for old(...))
        self.in_try = []  # stack of sets of exception names currently caught
        self.trace = []  # human readable branch decisions (for replay files)

    def fork(self):
        s = State()
        s.vars = dict(self.vars)
        s.heap = dict(self.heap)
        s.pc = list(self.pc)
        s.guards = list(self.guards)
        s.ghost = dict(self.ghost)
        s.old = self.old
        s.in_try = list(self.in_try)
        s.trace = list(self.trace)
        return s

    def snapshot(self):
        s = self.fork()
        s.old = None
        return s

    # heap helpers
    def alloc(self, obj):
        r = fresh_id()
        self.heap[r] = obj
        return Ref(r)

    def obj(self, ref):
        if isinstance(ref, Ref):
            ref = ref.ref
        return self.heap[ref]

    def mut(self, ref):
        """Clone-before-write access to a heap object."""
        if isinstance(ref, Ref):
            ref = ref.ref
        o = self.heap[ref].clone()
        self.heap[ref] = o
        return o

    def assume(self, c, derived=False):
        """derived=True: c is a consequence of what is already known (a proved obligation, a lemma instance whose premise was
        proved) or the defining axiom of a fresh ghost function - it can be left out of a satisfiability query without changing
        the answer (see solve.DERIVED)."""
        if c is True:
            return
        if self.guards:
            c = z3.Implies(z3.And(*self.guards), c)
        self.pc.append(c)
        if derived:
            from . import solve
            solve.DERIVED[c.get_id()] = c   # the term is kept alive so that the id stays unique

    def full_pc(self):
        return self.pc + self.guards

    def bind(self, name, val, defined=True):
        self.vars[name] = (val, defined)
