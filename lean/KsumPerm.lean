/-
The one lemma about keyed sums that the z3 side of /verif states without proving (pyvc/spec.py: ksum_perm): a keyed sum is
invariant under a permutation of the summed stretch.  Checked by `lean KsumPerm.lean` (thorough tier).

z3 side:   ksum(keys, vals, K, lo, hi) = if hi <= lo then 0 else ksum(keys, vals, K, lo, hi-1) + (if keys[hi-1] = K then vals[hi-1] else 0)
here:      ksum k v K lo n  is the same sum over the n entries lo, lo+1, ..., lo+n-1 (ksum_zero / ksum_succ are that recursion).
-/
import Mathlib

open Finset

noncomputable def ksum (k : ℤ → ℤ) (v : ℤ → ℝ) (K lo : ℤ) (n : ℕ) : ℝ :=
  ∑ j ∈ range n, if k (lo + j) = K then v (lo + j) else 0

theorem ksum_zero (k : ℤ → ℤ) (v : ℤ → ℝ) (K lo : ℤ) : ksum k v K lo 0 = 0 := by
  simp [ksum]

theorem ksum_succ (k : ℤ → ℤ) (v : ℤ → ℝ) (K lo : ℤ) (n : ℕ) :
    ksum k v K lo (n + 1) = ksum k v K lo n + (if k (lo + n) = K then v (lo + n) else 0) := by
  simp [ksum, sum_range_succ]

/-- `p` maps `[0,n)` injectively into itself and entry `lo+j` of `(k2,v2)` is entry `lo+p j` of `(k1,v1)`:
    the keyed sums over the stretch agree. -/
theorem ksum_perm (k1 k2 : ℤ → ℤ) (v1 v2 : ℤ → ℝ) (K lo : ℤ) (n : ℕ) (p : ℕ → ℕ)
    (hr : ∀ j, j < n → p j < n)
    (hi : ∀ i j, i < n → j < n → p i = p j → i = j)
    (hk : ∀ j, j < n → k2 (lo + j) = k1 (lo + p j) ∧ v2 (lo + j) = v1 (lo + p j)) :
    ksum k2 v2 K lo n = ksum k1 v1 K lo n := by
  unfold ksum
  have h1 : ∑ j ∈ range n, (if k2 (lo + j) = K then v2 (lo + j) else 0)
      = ∑ j ∈ range n, (if k1 (lo + p j) = K then v1 (lo + p j) else 0) := by
    apply sum_congr rfl
    intro j hj
    have h := hk j (mem_range.mp hj)
    rw [h.1, h.2]
  rw [h1]
  have hinj : Set.InjOn p (range n : Set ℕ) := by
    intro a ha b hb hab
    exact hi a b (by simpa using ha) (by simpa using hb) hab
  have himg : (range n).image p = range n := by
    apply eq_of_subset_of_card_le
    · intro x hx
      rcases mem_image.mp hx with ⟨a, ha, rfl⟩
      exact mem_range.mpr (hr a (mem_range.mp ha))
    · rw [card_image_of_injOn hinj]
  calc ∑ j ∈ range n, (if k1 (lo + p j) = K then v1 (lo + p j) else 0)
      = ∑ x ∈ (range n).image p, (if k1 (lo + x) = K then v1 (lo + x) else 0) := by
        rw [sum_image]
        intro a ha b hb hab
        exact hinj (by simpa using ha) (by simpa using hb) hab
    _ = ∑ x ∈ range n, (if k1 (lo + x) = K then v1 (lo + x) else 0) := by rw [himg]

#print axioms ksum_perm
