#!/bin/sh
# apply every kept seeded change in turn, run its property's quick check (must exit 1), restore /repo
cd /verif
for d in seeded/*/; do
  id=$(basename $d); prop=$(python3 -c "import json;print(json.load(open('$d/meta.json'))['breaks_property'])")
  cd /repo; git diff --quiet || { echo "repo dirty"; exit 3; }
  if ! git apply --check /verif/$d/patch.diff 2>/dev/null; then echo "$id: PATCH DOES NOT APPLY"; cd /verif; continue; fi
  git apply /verif/$d/patch.diff
  cd /verif; ./check $prop > /tmp/retest_$id.log 2>&1; e=$?
  git -C /repo checkout -- .
  echo "$id ($prop): check exit=$e  $(grep -c '^VIOLATION' /tmp/retest_$id.log) violation line(s); first: $(grep -A1 '^VIOLATION' /tmp/retest_$id.log | sed -n 2p | cut -c1-130)"
done
