#!/bin/sh
# apply every kept seeded change in turn, run its property's quick check (must exit 1), restore /repo
cd /verif
# a mutant can leave the solver stuck (it ignores its resource limit on some non-linear queries): the wall-clock safety net, which
# never produces a verdict, is kept short here so that the whole re-test fits in an hour
PYVC_WALL_FACTOR=${PYVC_WALL_FACTOR:-3}; PYVC_WALL_SLACK=${PYVC_WALL_SLACK:-20}; export PYVC_WALL_FACTOR PYVC_WALL_SLACK
for d in seeded/*/; do
  id=$(basename $d); case " $SKIP " in *" $id "*) continue;; esac; prop=$(python3 -c "import json;print(json.load(open('$d/meta.json'))['breaks_property'])")
  cd /repo; git diff --quiet || { echo "repo dirty"; exit 3; }
  if ! git apply --check /verif/$d/patch.diff 2>/dev/null; then echo "$id: PATCH DOES NOT APPLY"; cd /verif; continue; fi
  git apply /verif/$d/patch.diff
  cd /verif; ./check $prop > /tmp/retest_$id.log 2>&1; e=$?
  git -C /repo checkout -- .
  echo "$id ($prop): check exit=$e  $(grep -c '^VIOLATION' /tmp/retest_$id.log) violation line(s); first: $(grep -A1 '^VIOLATION' /tmp/retest_$id.log | sed -n 2p | cut -c1-130)"
done
