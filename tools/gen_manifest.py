"""Regenerate MANIFEST.json from props/registry.py (python3-vt tools/gen_manifest.py)."""
import json, os, sys
ROOT = os.path.dirname(os.path.dirname(os.path.abspath(__file__)))
sys.path.insert(0, ROOT)
from props.registry import PROPS, NOT_APPLICABLE

ALL = ["C%02d" % i for i in range(1, 21)]
checks = []
for pid in ALL:
    if pid not in PROPS:
        continue
    P = PROPS[pid]
    checks.append(dict(
        property_id=pid,
        quick_cmd="./check %s --tier quick" % pid,
        thorough_cmd="./check %s --tier thorough" % pid,
        evidence_file="/verif/evidence/%s.json" % pid,
        replay_cmd_template="./check replay {path}",
        engine="pyvc",
        level_claimed=dict(category=P["level"], text=P["level_text"], design_ref=P.get("design_ref", "DESIGN.md section 5, " + pid)),
        level_note=P["level_note"],
        technique=P["technique"],
    ))
na = [dict(property_id=pid, reason=NOT_APPLICABLE.get(pid, "no check built yet in this round (see DESIGN.md section 10 for status)")) for pid in ALL if pid not in PROPS]
m = dict(
    version=1,
    setup_cmd="sh ./setup.sh",
    hooks=dict(guard="VECTORIZERS_VERIF", enable="no hooks are compiled into /repo; checks import /repo's working tree directly (python3-vt reads the source text, /venv/bin/python runs it with NUMBA_DISABLE_JIT=1)",
               baseline_off_cmd="cd /repo && /venv/bin/python -m pytest -ra -q -p no:cacheprovider --timeout=900 --continue-on-collection-errors",
               source_commits=[], add_only=True),
    engines=[dict(name="pyvc", path="/verif/pyvc", serves_properties=[c["property_id"] for c in checks],
                  kind_free_text="home-made contract verifier: ast -> verification conditions -> z3/cvc5, sidecar contracts in /verif/contracts, real source re-read every run"),
             dict(name="bounded", path="/verif/bounded", serves_properties=[c["property_id"] for c in checks],
                  kind_free_text="run-time contract / independent-reference drivers on the real code (bounded stand-in, never counted as proved); also replays verifier counter-models")],
    checks=checks,
    notes="Contract-based deductive verification of the real code; see DESIGN.md. Known findings: known_findings.json.",
    not_applicable=na,
)
json.dump(m, open(os.path.join(ROOT, "MANIFEST.json"), "w"), indent=1)
print("MANIFEST: %d checks, %d not_applicable" % (len(checks), len(na)))
