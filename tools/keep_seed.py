"""tools/keep_seed.py <agent out dir>/<Cxx> <seed id> <property> <caught-by text> : copy a confirmed seeded change into /verif/seeded/<seed id>/"""
import json, os, shutil, sys
src, sid, prop, caught = sys.argv[1], sys.argv[2], sys.argv[3], sys.argv[4]
dst = os.path.join("/verif/seeded", sid)
os.makedirs(dst, exist_ok=True)
for f in ("patch.diff", "demo.py", "notes.md"):
    if os.path.exists(os.path.join(src, f)):
        shutil.copy(os.path.join(src, f), os.path.join(dst, f))
notes = open(os.path.join(src, "notes.md")).read() if os.path.exists(os.path.join(src, "notes.md")) else ""
meta = dict(id=sid, breaks_property=prop, source="independent sub-agent given only the property text and a scratch worktree",
            needs_to_manifest=(sys.argv[5] if len(sys.argv) > 5 else "see notes.md"),
            what_i_ran=["git -C /repo apply seeded/%s/patch.diff" % sid, "cd /repo && NUMBA_DISABLE_JIT=1 /venv/bin/python /verif/seeded/%s/demo.py  (fails with the change, passes without)" % sid,
                        "./check %s --tier quick  (exit 1 with the change)" % prop, "git -C /repo checkout -- .",
                        "full test suite in a scratch worktree with the change applied: see tests_with_change"],
            caught_by=caught, tests_with_change="pending")
json.dump(meta, open(os.path.join(dst, "meta.json"), "w"), indent=1)
print("kept", dst)
