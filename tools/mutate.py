"""Mutation self-test of the deductive layer (python3-vt tools/mutate.py [--max N] [--jobs J] [functions...]).

For every function under contract, small syntactic mutants of the REAL source are written to a scratch copy of the
repository (VERIF_REPO, removed afterwards) and the function is re-verified with pyvc alone (no bounded driver).
Outcome per mutant: killed-sat (an obligation refuted), killed-unknown (an obligation of the recorded baseline no longer
discharged), killed-error (the executor stopped: e.g. certainly-unbound read), survived (everything still discharged).
Survivors are either equivalent mutants or places where the contract is weaker than the code - they are listed for review."""
import ast
import copy
import json
import multiprocessing as mp
import os
import shutil
import sys
import tempfile

if os.environ.get("PYTHONHASHSEED") != "0":   # same query text as ./check
    os.environ["PYTHONHASHSEED"] = "0"
    os.execv(sys.executable, [sys.executable] + sys.argv)
ROOT = os.path.dirname(os.path.dirname(os.path.abspath(__file__)))
sys.path.insert(0, ROOT)

SWAP = {ast.Lt: ast.LtE, ast.LtE: ast.Lt, ast.Gt: ast.GtE, ast.GtE: ast.Gt, ast.Eq: ast.NotEq, ast.NotEq: ast.Eq}


def mutants_of(fdef):
    """yield (description, mutated FunctionDef)"""
    nodes = [n for n in ast.walk(fdef)]
    for idx, n in enumerate(nodes):
        if isinstance(n, ast.Compare) and len(n.ops) == 1 and type(n.ops[0]) in SWAP:
            m = copy.deepcopy(fdef)
            mn = [x for x in ast.walk(m)][idx]
            mn.ops = [SWAP[type(n.ops[0])]()]
            yield "L%d: %s  ->  %s" % (n.lineno, ast.unparse(n), ast.unparse(mn)), m
        if isinstance(n, ast.BinOp) and isinstance(n.op, (ast.Add, ast.Sub)) and isinstance(n.right, ast.Constant) and n.right.value == 1:
            m = copy.deepcopy(fdef)
            mn = [x for x in ast.walk(m)][idx]
            mn.op = ast.Sub() if isinstance(n.op, ast.Add) else ast.Add()
            yield "L%d: %s  ->  %s" % (n.lineno, ast.unparse(n), ast.unparse(mn)), m
        if isinstance(n, ast.BinOp) and isinstance(n.op, (ast.Add, ast.Sub)) and isinstance(n.right, ast.Constant) and n.right.value == 1:
            m = copy.deepcopy(fdef)
            # drop the "+ 1" / "- 1"
            parent_nodes = [x for x in ast.walk(m)]
            target = parent_nodes[idx]
            for p in parent_nodes:
                for field, val in ast.iter_fields(p):
                    if val is target:
                        setattr(p, field, target.left)
                    elif isinstance(val, list) and any(v is target for v in val):
                        setattr(p, field, [target.left if v is target else v for v in val])
            yield "L%d: %s  ->  %s" % (n.lineno, ast.unparse(n), ast.unparse(n.left)), m
        if isinstance(n, ast.AugAssign) and isinstance(n.value, ast.Constant) and n.value.value == 1 and isinstance(n.op, ast.Add):
            m = copy.deepcopy(fdef)
            mn = [x for x in ast.walk(m)][idx]
            mn.value = ast.Constant(value=2)
            yield "L%d: %s  ->  %s" % (n.lineno, ast.unparse(n), ast.unparse(mn)), m


def run_one(job):
    qn, desc, new_src_path, rel_path = job
    scratch = tempfile.mkdtemp(prefix="mut_")
    try:
        dst = os.path.join(scratch, "vectorizers")
        shutil.copytree("/repo/vectorizers", dst, ignore=shutil.ignore_patterns("__pycache__", "tests"))
        shutil.copy(new_src_path, os.path.join(scratch, rel_path))
        os.environ["VERIF_REPO"] = scratch
        import importlib
        import pyvc.core as core
        importlib.reload(core)
        core.REPO = scratch
        import contracts as C
        contracts, macros = C.load_all()
        baseline = json.load(open(os.path.join(ROOT, "baseline", "obligations.json")))
        import vcheck
        v = core.Verifier(contracts, macros, 8000)
        verdict, detail = "survived", ""
        for variant in (contracts[qn].get("variants") or [None]):
            try:
                r = v.verify(qn, variant)
            except Exception as e:
                return dict(function=qn, mutant=desc, verdict="killed-error", detail="checker crash %s" % str(e)[:80])
            sat = [o for o in r["obligations"] if o["verdict"] == "sat"]
            unk = [o for o in r["obligations"] if o["verdict"] == "unknown" and vcheck.obligation_key(o) in baseline]
            if sat:
                return dict(function=qn, mutant=desc, verdict="killed-sat", detail=sat[0]["name"].split("::")[-1] + " | " + sat[0]["note"][:70])
            if unk:
                verdict, detail = "killed-unknown", unk[0]["name"].split("::")[-1]
            elif r["error"] and verdict == "survived":
                verdict, detail = "killed-error", r["error"][:100]
        return dict(function=qn, mutant=desc, verdict=verdict, detail=detail)
    finally:
        shutil.rmtree(scratch, ignore_errors=True)
        try:
            os.unlink(new_src_path)
        except OSError:
            pass


def main(argv):
    import contracts as C
    from pyvc.core import ModInfo
    contracts, _ = C.load_all()
    maxn = int(argv[argv.index("--max") + 1]) if "--max" in argv else 6
    jobs_n = int(argv[argv.index("--jobs") + 1]) if "--jobs" in argv else 4
    want = [a for a in argv if "::" in a]
    fns = want or [q for q in contracts if not q.startswith(("external::", "lemma::")) and "#" not in q and not contracts[q].get("trusted")]
    jobs = []
    import random
    rng = random.Random(int(os.environ.get("VERIF_SEED", "0")))
    for qn in sorted(fns):
        path, name = qn.split("::")
        mod = ModInfo(path)
        if name not in mod.funcs:
            continue
        fdef = mod.funcs[name]
        ms = list(mutants_of(fdef))
        rng.shuffle(ms)
        src_lines = mod.src.splitlines(keepends=True)
        for desc, m in ms[:maxn]:
            # splice the mutated function back into the file text (decorators and everything else untouched)
            start = fdef.lineno - 1
            end = fdef.end_lineno
            indent = " " * fdef.col_offset
            body = ast.unparse(m)
            body = "\n".join(indent + ln for ln in body.splitlines()) + "\n"
            new_src = "".join(src_lines[:start]) + body + "".join(src_lines[end:])
            fd, tmp = tempfile.mkstemp(suffix=".py", prefix="mutsrc_")
            os.write(fd, new_src.encode())
            os.close(fd)
            jobs.append((qn, desc, tmp, path))
    print("mutants:", len(jobs), "functions:", len(fns), flush=True)
    with mp.Pool(jobs_n, maxtasksperchild=1) as pool:
        res = []
        for r in pool.imap_unordered(run_one, jobs):
            res.append(r)
            print("%-14s %-70s %s | %s" % (r["verdict"], r["function"].split("::")[-1][:30] + "  " + r["mutant"][:38], "", r["detail"][:90]), flush=True)
    summary = {}
    for r in res:
        summary[r["verdict"]] = summary.get(r["verdict"], 0) + 1
    print("SUMMARY", summary)
    json.dump(dict(summary=summary, mutants=res), open(os.path.join(ROOT, "selftest_mutation.json"), "w"), indent=1)


if __name__ == "__main__":
    main(sys.argv[1:])
