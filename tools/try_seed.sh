#!/bin/sh
# usage: tools/try_seed.sh <dir with patch.diff + demo.py> <property id> [tier]
# applies the seeded change to /repo, runs its demonstration and the property's check, and ALWAYS restores /repo.
D="$1"; P="$2"; T="${3:-quick}"
cd /repo || exit 3
git diff --quiet || { echo "repo not clean"; exit 3; }
git apply --check "$D/patch.diff" 2>/dev/null || { echo "PATCH-DOES-NOT-APPLY $D"; exit 4; }
git apply "$D/patch.diff"
# the demonstration is run from a neutral directory against /repo (python puts the script's own directory first on sys.path)
rm -rf /tmp/seedrun; mkdir -p /tmp/seedrun; cp "$D/demo.py" /tmp/seedrun/demo.py
echo "== demo with change:"; (cd /repo && PYTHONPATH=/repo NUMBA_DISABLE_JIT=1 timeout 900 /venv/bin/python -W ignore /tmp/seedrun/demo.py >/tmp/seed_demo.log 2>&1; echo "demo exit $?")
echo "== check $P with change:"; (cd /verif && timeout 3000 ./check "$P" --tier "$T" > /tmp/seed_check.log 2>&1; echo "check exit $?"; grep -E "VIOLATION|failed obligation|CHECKER|UNDECIDED" /tmp/seed_check.log | head -8; tail -1 /tmp/seed_check.log | cut -c1-200)
git -C /repo checkout -- . ; git -C /repo status --short | head -3
echo "== demo without change:"; (cd /repo && PYTHONPATH=/repo NUMBA_DISABLE_JIT=1 timeout 900 /venv/bin/python -W ignore /tmp/seedrun/demo.py >/tmp/seed_demo0.log 2>&1; echo "demo exit $?"); rm -rf /tmp/seedrun
