#!/bin/sh
# usage: tools/confirm_seed_tests.sh <seed id>   - full test suite in a scratch worktree with the seeded change applied
S="$1"; W="/tmp/seedwt_$S"
git -C /repo worktree add -q --detach "$W" HEAD || exit 3
cd "$W" && git apply "/verif/seeded/$S/patch.diff" || { echo "$S: patch does not apply"; git -C /repo worktree remove --force "$W"; exit 4; }
/venv/bin/python -m pytest -q -p no:cacheprovider --timeout=3000 --continue-on-collection-errors -n 4 -rf vectorizers > "/tmp/seedtest_$S.log" 2>&1
R=$(tail -1 "/tmp/seedtest_$S.log")
F=$(grep "^FAILED" "/tmp/seedtest_$S.log" | grep -v "lil-LOT_exact" | tr '\n' ' ')
cd /; git -C /repo worktree remove --force "$W"; git -C /repo worktree prune
python3 - "$S" "$R" "$F" <<'PY'
import json, sys
s, r, f = sys.argv[1], sys.argv[2], sys.argv[3]
p = "/verif/seeded/%s/meta.json" % s
m = json.load(open(p))
m["tests_with_change"] = dict(result_line=r.strip(), new_failures=f.strip() or "none (only the two baseline always-fail lil-LOT_exact bad_params tests)")
json.dump(m, open(p, "w"), indent=1)
print(s, "|", r.strip(), "|", f.strip() or "no new failures")
PY
