#!/bin/sh
# run every registered quick (or $1) check on the current tree, print one line per property; exit 1 if any is non-zero
T="${1:-quick}"
cd /verif
rc=0
for p in $(python3 -c "import json;print(' '.join(c['property_id'] for c in json.load(open('MANIFEST.json'))['checks']))"); do
  s=$(date +%s)
  ./check $p --tier $T > /tmp/runall_$p.log 2>&1; e=$?
  echo "$p exit=$e $(( $(date +%s) - s ))s  $(grep -c VIOLATION /tmp/runall_$p.log) violations  $(tail -1 /tmp/runall_$p.log | cut -c1-120)"
  [ $e -ne 0 ] && rc=1
done
exit $rc
