"""Per-property registry: functions under contract (deductive layer) and bounded driver."""
D = "vectorizers/distances.py::"
M = "vectorizers/mixed_gram_vectorizer.py::"

PROPS = {}
NOT_APPLICABLE = {}

PROPS["C18"] = dict(
    functions=[D + "sparse_sum", D + "sparse_mul", D + "dense_union"],
    bounded=True,
    level="other",
    level_text=("Deductive (all inputs, unbounded): memory safety, termination and index postconditions of sparse_sum / sparse_mul / dense_union "
                "proved by pyvc from the real source. Bounded only: the numeric clauses (finite, symmetric, [0,1], zero on proportional inputs, "
                "triangle inequality, sparse == dense), against float64 reference definitions on an exhaustive small grid plus seeded random cases."),
    level_note=("Trusted: pyvc engine, z3/cvc5, numpy library contracts; arr_union/arr_intersect contracts assumed (run-time checked); "
                "floats as reals; no aliasing between distinct array arguments. Numeric clauses are bounded, not proved."),
    technique="contract-based deductive verification (pyvc VC generation + z3/cvc5) with bounded run-time contract checks for numeric clauses",
    explanation=("Deductive part (pyvc, unbounded): memory safety, termination and the index postconditions of the sparse merge helpers "
                 "(strictly increasing output indices, each a member of the inputs' indices, no stored zeros, equal lengths) are proved for all inputs "
                 "from the real source. Numeric clauses (finiteness, symmetry, range, zero on proportional inputs, triangle inequality, sparse == dense) "
                 "are float facts no SMT contract in reach decides: they are checked by the BOUNDED driver against float64 definitions."),
    assumptions=["contracts of arr_union/arr_intersect/arr_unique assumed (numpy one-liners), checked at run time by the bounded driver"],
)

PROPS["C09"] = dict(
    functions=[M + "contract_pair", M + "contract_and_count_pairs", M + "bpe_encode", M + "count_pairs", M + "pair_length"],
    bounded=True,
    level="proof",
    level_text=("Proof (all inputs, unbounded) for the kernels that make the encoding lossless: contract_pair and contract_and_count_pairs satisfy a "
                "witness postcondition (ghost array src: every output code is either the input code at src[j] or new_code standing for the pair at "
                "src[j], src[j]+1; src[0]=0, src[len(out)]=len(in); greedy left-to-right, non-overlapping), are memory safe and never read an unbound "
                "variable; bpe_encode replays the merge list with these kernels. Lemma (stated, standard): the witness implies expand(out)==in. "
                "The training loop bpe_train (tie-breaking, pruning, budget) and the tokens/matrix outputs are NOT under contract: they are "
                "covered by the bounded driver (exhaustive small corpora over {a,b})."),
    level_note=("Trusted: pyvc engine, z3; integers mathematical (numba uint32 locals ignored); bpe_train, pruning_max_freq_pair and the estimator "
                "glue are outside the deductive part (bounded only)."),
    technique="contract-based deductive verification (pyvc: witness postcondition via ghost state, loop invariants, z3) + exhaustive bounded run-time checks",
    explanation="see level_text",
    assumptions=["witness => lossless decoding is a stated lemma (induction over the output), not machine-checked"],
)

SW = "vectorizers/transformers/sliding_windows.py::"
WK = "vectorizers/_window_kernels.py::"
PROPS["C19"] = dict(
    functions=[SW + "sliding_windows", WK + "difference_kernel"],
    bounded=True,
    level="other",
    level_text=("Deductive (all inputs, unbounded, integer arithmetic): sliding_windows returns exactly ceil((L' - width + 1)/stride) rows "
                "(as q*stride >= a > (q-1)*stride), every window slice and every sampled index is in range (so nothing outside the padded "
                "sequence is read), the padding copy is in range, the sample is applied on every path; difference_kernel has one row per valid "
                "difference and writes in range. Bounded: the interpretation of window_sample in SlidingWindowTransformer.fit (isinstance / "
                "np.issubdtype dispatch is outside the verifier's subset), kernels and multivariate input, against sliding_window_view-style "
                "reference on an exhaustive small scope."),
    level_note="Trusted: pyvc, z3 (nonlinear integer goals), numpy slicing contracts; the kernel parameter is assumed pure with the declared output size; multivariate case bounded only.",
    technique="contract-based deductive verification (pyvc VCs over integers, z3) + exhaustive bounded comparison with a reference",
    explanation="see level_text",
)

CU = "vectorizers/coo_utils.py::"
_KERNELS = [WK + k for k in ("window_at_index", "flat_kernel", "harmonic_kernel", "geometric_kernel", "update_kernel", "timed_flat_kernel",
                              "timed_geometric_kernel", "fixed_window_radii")]
_COO = [CU + k for k in ("coo_append", "coo_sum_duplicates", "merge_sum_duplicates", "merge_all_sum_duplicates", "coo_increase_mem")] + ["lemma::ksum"]
_TECH = "contract-based deductive verification (pyvc VC generation, z3/cvc5) with bounded run-time reference checks for the clauses no contract decides"

PROPS["C03"] = dict(
    functions=_KERNELS,
    bounded=True,
    level="other",
    level_text=("Deductive (unbounded): window_at_index returns exactly the in-sequence elements at distance 1..radius in order of increasing distance "
                "(both orientations; it reads one sequence only, so windows cannot cross a boundary); each kernel returns one weight per context, zero "
                "before the offset and at masked contexts and the base weight (1, 1/(j+1)) elsewhere; fixed radii table = radius everywhere, 0 at the "
                "mask. Bounded: the assembled matrix (event emission in numba_build_skip_grams, block offsets, column naming, window normalisation, "
                "timestamps) against an independent float64 reference of the definition on enumerated small corpora x a 2880-configuration grid (sampled)."),
    level_note="Trusted: pyvc, z3, numpy contracts (flipud/arange/mask assignment), floats as reals, pow uninterpreted. The event-emission kernels are not yet under contract.",
    technique=_TECH, explanation="see level_text",
)
PROPS["C04"] = dict(
    functions=_COO,
    bounded=True,
    level="other",
    level_text=("Deductive (unbounded, for every buffer size N >= 2 and every value of COO_QUICKSORT_LIMIT >= 1, the constant is symbolic): the accumulator's "
                "representation invariant WF is preserved by coo_append / coo_sum_duplicates / merge_sum_duplicates / merge_all_sum_duplicates / "
                "coo_increase_mem, every subscript and slice assignment is in range, two free slots remain after every append (so the next append "
                "cannot overflow), growth keeps the shared fill index. CONTENT (the heart of the property, also unbounded): for an arbitrary key K, "
                "W_K(c) = sum of val[p] over the stored entries with key[p] == K is preserved by sorting (coo_sum_duplicates), by every level of the "
                "hierarchical merge (merge_sum_duplicates), by merge_all_sum_duplicates and by reallocation (coo_increase_mem), and coo_append satisfies "
                "W_K(result) == W_K(before) + (val if key == K else 0) whatever sorting/merging/growth the call triggers; every stored entry keeps the "
                "(row, col) cell its key stands for (KEYED). So no event is lost, duplicated or credited to another cell by the accumulator - in real "
                "arithmetic (float32 summation order is the property's own caveat). The three keyed-sum lemmas used are proved by induction on every "
                "run (split, shift) or stated with a Lean proof (permutation). ASSUMED: the run stack does not fill up (see assumptions). Bounded: "
                "Document chunking (_generate_chunk_boundaries, both variants): the chunks given to the worker threads are consecutive, start at document 0 "
                "and end at the last document, for every n_threads >= 1 and every corpus (so n_threads cannot drop or duplicate a document). "
                "conservation of events over accumulator histories with tiny N and LIMIT through the real functions, and API-level independence of "
                "n_threads / coo_initial_memory / volume for the four vectorizers."),
    level_note=("Trusted: pyvc, z3, numpy contracts (argsort is a sorting permutation, slice assignment, round). Assumption: depth[0] stays below "
                "len(min) (true at the real LIMIT unless > LIMIT*N^2 events; false for artificially small LIMIT, observed)."),
    technique=_TECH, explanation="see level_text",
    assumptions=["run-stack depth assumption (contracts/coo_utils.py ROOM)"],
)


def reg(pid, functions, level, text, note, assumptions=()):
    PROPS[pid] = dict(functions=functions, bounded=True, level=level, level_text=text, level_note=note, technique=_TECH, explanation=text, assumptions=list(assumptions))


reg("C01", [M + "counts_to_csr_data", M + "lempel_ziv_based_encode"], "other",
    "Deductive (unbounded): counts_to_csr_data emits exactly one (column, count) pair per phrase of the row and only ever adds columns (memory/key safety); "
    "the LZ parse loop keeps start <= end. Bounded: every row-producing estimator of the catalogue (27 configurations + co-occurrence family, EdgeList, tree) is "
    "fitted and then transformed on unseen tokens/characters/labels, empty items and items longer/shorter than training: row count, fitted width, per-item order, "
    "dictionaries unchanged.",
    "Trusted: pyvc, z3, numpy/scipy. The estimator-level glue (shape= arguments, keep-masks) is checked by the bounded driver only in this round.")
reg("C02", [M + "contract_pair", M + "contract_and_count_pairs", M + "bpe_encode"], "other",
    "Deductive (unbounded): the two BPE contraction kernels satisfy the same deterministic witness specification (greedy left-to-right, non-overlapping), which is the "
    "kernel-level reason why replaying the merge list in transform reproduces the encodings of fit_transform. Bounded: fit returns the estimator and "
    "fit_transform(X) == fit(X).transform(X) for the whole catalogue plus parameter grids (co-occurrence: orientation/kernel/window function/mask/n_iter/epsilon/threads; "
    "Wasserstein: metric x input_method x memory_size x method; BPE: vocab x return_type; Ngram: n/mask/dictionary).",
    "Trusted: pyvc, z3; numeric equality of SVD-compressed outputs is a bounded float comparison (1e-6).")
reg("C05", [], "other",
    "Bounded only in this round: the kept vocabulary is compared with an independent reference of the constraint semantics on seeded corpora x 17 constraint "
    "combinations (with shuffled documents/tokens for order independence), and the 'count equal to the bound is kept' case is enumerated exhaustively for all "
    "(count, total) pairs up to the stated bound through the real preprocess_token_sequences.",
    "No function of this property is under a machine-checked contract yet (set/regex/np.where code is outside the current pyvc subset); everything reported is bounded.")
reg("C06", ["vectorizers/coo_utils.py::sum_coo_entries"] if False else [], "other",
    "Bounded only in this round: NgramVectorizer / SkipgramVectorizer / EdgeListVectorizer matrices against pure-python counts on seeded small corpora "
    "(fit_transform and transform on unseen data), and '+' of two unigram models against a model fitted on the concatenated corpora.",
    "No function of this property is under a machine-checked contract yet; everything reported is bounded.")

IW = "vectorizers/transformers/info_weight.py::"
reg("C07", [], "other",
    "Bounded only in this round: the real transport_plan on all size pairs (n, m) in [1..5]^2 with seeded masses (zeros, unbalanced, 1e-9 spikes) and cost families with ties/zeros: "
    "non-negativity, marginals to 1e-9, cost vs the HiGHS LP optimum (1e-7 relative); thorough adds sizes up to 25x25. Optimality of the external network simplex "
    "(pynndescent) is not within reach of any contract here.",
    "The optimiser is external (pynndescent.optimal_transport); scipy.optimize.linprog (HiGHS) is the reference. Nothing is proved for this property in this round.")
reg("C08", [], "other",
    "Bounded only: invariance of the transform under re-encodings of the same measures (row scale, zero-weight padding, permutation with vectors, splitting a point), equal "
    "distributions, memory_size, sparse vs list input, full-rank distances vs raw LOT vectors, to 1e-6 on seeded generic data. Invariance of an LP + SVD pipeline is a numeric "
    "fact; no contract in reach decides it.",
    "Numeric, generic (unique optimal plans) data only; ties can make the optimal plan non-unique and are not generated.")
reg("C11", [CU + "coo_append"] if False else [], "other",
    "Bounded only in this round: API matrix vs an independent dense float64 EM written from the property statement (normalise columns, threshold, distribute one unit per "
    "occurrence in proportion to kernel x current value, re-normalise, re-threshold) on seeded corpora x n_iter 0..3 x epsilon {0,.05,.12,.3,1} x window/kernel settings x "
    "n_threads; entries in [0,1], column sums, support never grows.",
    "em_update_matrix is not yet under a machine-checked contract (list-of-array parameters); everything reported is bounded.")
reg("C12", [M + "lempel_ziv_based_encode", M + "counts_to_csr_data", SW + "sliding_windows"], "other",
    "Deductive (unbounded): the LZ parse mutates only the per-string dictionary it is given and counts_to_csr_data only adds columns (frames); sliding_windows reads only its own "
    "sequence. Bounded: metamorphic relations (split/concatenate, permute, duplicate; transform(X1) unchanged by transform(X2)) for every row-wise estimator of the catalogue "
    "with small block/chunk sizes, tolerance 1e-7 for float paths (Sinkhorn batches share a stopping test: agreement is to tolerance by design).",
    "Dependency (\\from) obligations are not generated yet; the row-independence of the estimators is bounded.")
reg("C13", [D + "sparse_mul", D + "dense_union"], "other",
    "Deductive (unbounded): frame postconditions `unchanged(...)` for the sparse distance helpers (arguments are not modified). Bounded: deep snapshots (incl. sparse storage "
    "arrays) of inputs, keyword arguments and constructor parameter objects before/after fit / fit_transform / transform for the whole catalogue; fitted dictionaries; "
    "cache-directory listing after success and after a raising call (fault injected through the metric callable); two fits with one integer random_state.",
    "Frame analysis of the estimator methods is not generated yet; side-effect freedom of the estimators is bounded.")
reg("C14", _KERNELS, "other",
    "Deductive (unbounded): every kernel gives weight 0 to a context equal to mask_index and the fixed radii table is 0 at the mask (so a nullified mask emits no event as row "
    "or as column); window_at_index preserves positions. Bounded: re-indexing (delete vs replace in place, exactly one extra last entry), TokenCooccurrenceVectorizer with mask and "
    "mask+nullify vs the reference on pruned corpora, supplied dictionary with absent tokens, NgramVectorizer positions.",
    "preprocess_token_sequences (dict/list comprehension code) is not yet under contract; bounded.")
reg("C15", [], "other",
    "Bounded only: matrix vs an independent kernel-weighted walk counter over all rooted forest shapes on <= 4 (thorough 5) nodes x seeded labelings x radius x kernel x "
    "orientation x pruning with edge contraction; path graphs vs TokenCooccurrenceVectorizer.",
    "Sparse matrix powers and LabelBinarizer are library code; no function of this property is under contract.")
reg("C16", [M + "lempel_ziv_based_encode", M + "counts_to_csr_data", M + "murmurhash", M + "unicode_string_to_int_array"], "other",
    "Deductive (unbounded): memory/key safety of the LZ parse (start <= end, guarded dictionary updates), counts_to_csr_data emits one entry per phrase and never re-numbers an "
    "existing column, murmurhash stays in range and is non-negative. Bounded: per-phrase counts vs an independent LZ parse (fit_transform and transform, unseen strings), row "
    "totals, column identity, hashed variant.",
    "Row-total invariant (ghost `total`) not yet proved; bounded.")
reg("C17", [], "other",
    "Bounded only in this round: exact-prior weights vs float64 KL from the definition over storage encodings (csr/csc/coo/unsorted/explicit zeros/duplicates), finite and "
    "non-negative, permutation behaviour; transformer linear / zero-preserving / non-negative fixed weights.",
    "The column_kl kernels use a python set and np.searchsorted on slices; not yet under contract. KL >= 0 is Gibbs' inequality plus floats: no SMT contract decides it.")
reg("C20", [], "other",
    "Bounded only in this round: bins form a contiguous increasing partition covering the absolute range, row totals equal the number of values in (lo, hi], for uniform and "
    "quantile strategies, outlier bins, values equal to training min/max and far outliers; KDE rows non-negative and permutation invariant.",
    "pandas interval code is library code; expand_boundaries / add_outier_bins not yet under contract.")

_ALL_KERNELS = _KERNELS + _COO + [WK + "binom", WK + "difference_kernel", SW + "sliding_windows",
    M + "contract_pair", M + "contract_and_count_pairs", M + "bpe_encode", M + "count_pairs", M + "unicode_string_to_int_array", M + "murmurhash",
    M + "lempel_ziv_based_encode", M + "counts_to_csr_data", D + "sparse_sum", D + "sparse_mul", D + "dense_union"]
reg("C10", _ALL_KERNELS, "other",
    "Deductive (unbounded): for each kernel under contract every subscript (python/numpy semantics: -len <= i < len), every slice assignment length, every read of a "
    "possibly-unbound local, every dictionary lookup and every integer division is an obligation discharged for all inputs satisfying the stated precondition: the CooArray "
    "accumulator (symbolic buffer size and threshold), the BPE contraction kernels, LZ parse, murmurhash, window extraction and kernels, sliding_windows, the sparse merge "
    "helpers. Kernels NOT yet under contract (listed in DESIGN section 10): the four numba_build_skip_grams / EM drivers, em_update_matrix, info_weight and row_desnoise kernels, "
    "the LOT kernels. Bounded: the edge-input catalogue run interpreted (quick) and compiled / compiled+boundscheck in child processes (thorough) with result comparison.",
    "Trusted: pyvc, z3, numpy contracts; integers mathematical; call-site preconditions of the kernels are not yet proved on the python glue (bounded catalogue only).",
    assumptions=["run-stack depth assumption (contracts/coo_utils.py ROOM)"])


# ---------------------------------------------------------------- structural obligations on the estimator glue (pyvc/structural.py)
def st(file, function, kind, **kw):
    return dict(file="vectorizers/" + file, function=function, kind=kind, **kw)


_FIT_CLASSES = [("_vectorizers.py", "DistributionVectorizer"), ("_vectorizers.py", "HistogramVectorizer"), ("base_cooccurrence_vectorizer.py", "BaseCooccurrenceVectorizer"),
                ("edge_list_vectorizer.py", "EdgeListVectorizer"), ("kde_vectorizer.py", "KDEVectorizer"), ("linear_optimal_transport.py", "WassersteinVectorizer"),
                ("linear_optimal_transport.py", "SinkhornVectorizer"), ("linear_optimal_transport.py", "ApproximateWassersteinVectorizer"),
                ("mixed_gram_vectorizer.py", "LZCompressionVectorizer"), ("mixed_gram_vectorizer.py", "BytePairEncodingVectorizer"), ("ngram_vectorizer.py", "NgramVectorizer"),
                ("skip_gram_vectorizer.py", "SkipgramVectorizer"), ("tree_token_cooccurrence.py", "LabelledTreeCooccurrenceVectorizer"),
                ("transformers/count_feature_compression.py", "CountFeatureCompressionTransformer"), ("transformers/info_weight.py", "InformationWeightTransformer"),
                ("transformers/row_desnoise.py", "RowDenoisingTransformer"), ("transformers/sliding_windows.py", "SlidingWindowTransformer"),
                ("transformers/sliding_windows.py", "SequentialDifferenceTransformer"), ("transformers/categorical_columns.py", "CategoricalColumnTransformer")]

PROPS["C01"]["structural"] = [
    st("edge_list_vectorizer.py", "EdgeListVectorizer.transform", "shape-pinned"),
    st("edge_list_vectorizer.py", "EdgeListVectorizer.fit", "shape-pinned"),
    st("skip_gram_vectorizer.py", "SkipgramVectorizer.transform", "shape-pinned"),
    st("mixed_gram_vectorizer.py", "LZCompressionVectorizer.transform", "shape-pinned"),
    st("mixed_gram_vectorizer.py", "LZCompressionVectorizer.fit_transform", "shape-pinned"),
    st("mixed_gram_vectorizer.py", "BytePairEncodingVectorizer.transform", "shape-pinned"),
    st("mixed_gram_vectorizer.py", "BytePairEncodingVectorizer.fit_transform", "shape-pinned"),
    st("ngram_vectorizer.py", "NgramVectorizer.transform", "shape-pinned"),
    st("ngram_vectorizer.py", "NgramVectorizer.fit", "shape-pinned"),
    st("base_cooccurrence_vectorizer.py", "BaseCooccurrenceVectorizer._build_coo", "shape-pinned"),
    st("tree_token_cooccurrence.py", "sequence_tree_skip_grams", "shape-pinned"),
    st("multi_token_cooccurence_vectorizer.py", "MultiSetCooccurrenceVectorizer._build_coo", "shape-pinned"),
]
PROPS["C02"]["structural"] = [st(f, c + ".fit", "ret-self") for f, c in _FIT_CLASSES] + [
    st("linear_optimal_transport.py", "WassersteinVectorizer.transform", "kwarg", callee="lot_vectors_sparse_internal", keyword="spherical_vectors", value="metric == cosine"),
    st("linear_optimal_transport.py", "WassersteinVectorizer.transform", "kwarg", callee="lot_vectors_dense_internal", keyword="spherical_vectors", value="metric == cosine"),
    st("linear_optimal_transport.py", "lot_vectors_sparse", "kwarg", callee="lot_vectors_sparse_internal", keyword="spherical_vectors", value="metric == cosine"),
    st("linear_optimal_transport.py", "lot_vectors_dense", "kwarg", callee="lot_vectors_dense_internal", keyword="spherical_vectors", value="metric == cosine"),
    st("linear_optimal_transport.py", "lot_vectors_dense_generator", "kwarg", callee="lot_vectors_dense_internal", keyword="spherical_vectors", value="metric == cosine"),
    st("ngram_vectorizer.py", "NgramVectorizer.transform", "kwarg", callee="preprocess_token_sequences", keyword="masking", value="self.mask_string"),
    st("ngram_vectorizer.py", "NgramVectorizer.fit", "kwarg", callee="preprocess_token_sequences", keyword="masking", value="self.mask_string"),
    st("base_cooccurrence_vectorizer.py", "BaseCooccurrenceVectorizer.transform", "kwarg", callee="_preprocessing", keyword="masking", value="self.mask_string"),
    st("base_cooccurrence_vectorizer.py", "BaseCooccurrenceVectorizer.fit", "kwarg", callee="_preprocessing", keyword="masking", value="self.mask_string"),
    st("base_cooccurrence_vectorizer.py", "BaseCooccurrenceVectorizer.fit_transform", "kwarg", callee="_preprocessing", keyword="masking", value="self.mask_string"),
    st("base_cooccurrence_vectorizer.py", "BaseCooccurrenceVectorizer.fit", "same-steps", other="BaseCooccurrenceVectorizer.fit_transform"),
]
PROPS["C04"]["structural"] = [
    st("token_cooccurrence_vectorizer.py", "numba_build_skip_grams", "rebind", callee="coo_append"),
    st("timed_token_cooccurrence_vectorizer.py", "numba_build_skip_grams", "rebind", callee="coo_append"),
    st("multi_token_cooccurence_vectorizer.py", "numba_build_multi_skip_grams", "rebind", callee="coo_append"),
    st("ngram_token_cooccurence_vectorizer.py", "numba_build_skip_grams", "rebind", callee="coo_append"),
    st("coo_utils.py", "coo_append", "rebind", callee="coo_increase_mem"),
]
PROPS["C10"]["structural"] = list(PROPS["C04"]["structural"])
PROPS["C13"]["structural"] = [
    st("transformers/row_desnoise.py", "RowDenoisingTransformer.fit", "no-mutator"),
    st("transformers/row_desnoise.py", "RowDenoisingTransformer.transform", "no-mutator"),
    st("transformers/info_weight.py", "information_weight", "no-mutator"),
    st("transformers/info_weight.py", "InformationWeightTransformer.fit", "no-mutator"),
    st("transformers/info_weight.py", "InformationWeightTransformer.transform", "no-mutator"),
    st("transformers/count_feature_compression.py", "CountFeatureCompressionTransformer.fit_transform", "no-mutator"),
    st("transformers/count_feature_compression.py", "CountFeatureCompressionTransformer.transform", "no-mutator"),
    st("transformers/info_weight.py", "information_weight", "kwarg", callee="tocsc", keyword="copy", value="True"),
]

import contracts.lot_partitions as _LP
_PART = sorted(_LP.CONTRACTS)  # evaluated at import: includes the inner chunk loops
PROPS["C08"]["functions"] = _PART
PROPS["C08"]["level_text"] = ("Deductive (unbounded): every row-blocking loop of linear_optimal_transport.py (9 block loops in lot_vectors_sparse / dense / dense_generator, "
    "sinkhorn_vectors_sparse and the transform methods, 2 chunk loops in the *_internal kernels) is a partition of [0, n_rows): blocks are consecutive, start at 0, end at "
    "n_rows, for all n_rows >= 0 and all block sizes >= 1 (so memory_size / block / chunk sizes cannot drop, duplicate or reorder a row). Verified on mechanically extracted "
    "loop slices (the integer bookkeeping assignments; the rest of each loop body is dropped). Bounded: " + PROPS["C08"]["level_text"])
PROPS["C08"]["explanation"] = PROPS["C08"]["level_text"]
PROPS["C12"]["functions"] = PROPS["C12"]["functions"] + _PART

# ---------------------------------------------------------------- functions brought under contract later in the round
RD = "vectorizers/transformers/row_desnoise.py::"
NG = "vectorizers/ngram_vectorizer.py::"
LOT = "vectorizers/linear_optimal_transport.py::"
_DIST = [D + f for f in ("hellinger", "total_variation", "kantorovich1d", "jensen_shannon_divergence", "symmetric_kl_divergence", "sparse_hellinger")]
_KL = [IW + f for f in ("column_kl_divergence_exact_prior", "column_kl_divergence_approx_prior", "supervised_column_kl")]
PROPS["C18"]["functions"] += _DIST
PROPS["C18"]["level_text"] = PROPS["C18"]["level_text"].replace("Bounded only:", "Also deductive: memory safety of the five dense distances and sparse_hellinger, and float-safety "
    "obligations for hellinger (every sqrt argument >= 0, every divisor != 0 over the reals, which is what the clamp guarantees). Bounded only:")
PROPS["C17"]["functions"] = _KL
PROPS["C17"]["level_text"] = ("Deductive (unbounded): the exact-prior kernel column_kl_divergence_exact_prior returns exactly the Kullback-Leibler sum of the property statement - "
    "sum over all rows r of P(r) * log(P(r) / baseline[r]) with P(r) = (dense count of r + prior_strength * baseline[r]) / (column total + prior_strength), stated over a ghost dense "
    "column, so stored explicit zeros and absent rows provably give the same weight (over the reals, log uninterpreted, for sorted duplicate-free row indices, non-negative counts and "
    "baseline, prior_strength > 0); the three column_kl kernels are memory safe under `row indices sorted, duplicate-free and < len(baseline)`; in the exact-prior "
    "kernel the binary-search position of a row that is present is in range (this is where sortedness is load-bearing). " + PROPS["C17"]["level_text"])
PROPS["C06"]["functions"] = [NG + "ngrams_of", CU + "sum_coo_entries"]
PROPS["C06"]["level_text"] = ("Deductive (unbounded): ngrams_of('exact') returns exactly the runs of n consecutive elements in order (length max(0, L-n+1), element g equals "
    "sequence[g:g+n]), every slice in range for both behaviours; sum_coo_entries returns a non-empty list of strictly increasing (row, col) coordinates. " + PROPS["C06"]["level_text"].replace("Bounded only in this round:", "Bounded:"))
_SITE_OT = "@site/pynndescent/optimal_transport.py::"
PROPS["C07"]["functions"] = [LOT + "get_transport_plan", _SITE_OT + "arc_id", _SITE_OT + "initialize_cost", _SITE_OT + "initialize_supply"]
PROPS["C07"]["assumptions"] = list(PROPS["C07"].get("assumptions", [])) + [
    "pynndescent.optimal_transport.network_simplex_core trusted (returns a feasible optimal flow for the supply / cost vectors it is given): decided by the bounded driver against HiGHS only",
    "pynndescent.optimal_transport.allocate_graph_structures trusted (graph.n_arcs == n * m, graph.n_nodes == n + m, use_arc_mixing as passed, arrays long enough): stated, not verified",
    "numba locals typing of initialize_cost (i, j: uint16) not modelled: loop counters are mathematical integers (wraps beyond 65535 support points)",
    "installed dependency source is read from /venv's site-packages (pynndescent/optimal_transport.py); that the running interpreter imports that file is assumed",
]
PROPS["C17"]["assumptions"] = list(PROPS["C17"].get("assumptions", [])) + [
    "column_kl_divergence_exact_prior: functional contract over the reals with np.log uninterpreted (congruence only); float rounding, NaN/inf and Gibbs' inequality (non-negativity) are not covered by it",
    "column total taken as the sum of the stored values (count_data.sum()); equality with the dense column's sum is not separately proved",
]
PROPS["C07"]["structural"] = [st("linear_optimal_transport.py", "transport_plan", "posarg", callee="allocate_graph_structures", index=2, value="False", keyword="use_arc_mixing")]
PROPS["C07"]["level_text"] = ("Deductive (unbounded): get_transport_plan reads cell (i, j) of the plan from flow[n_arcs - (i*m + j) - 1], an in-range, injective index; the "
    "installed pynndescent source is under contract too (read from /venv's site-packages on every run): arc_id returns n_arcs - arc - 1 without arc mixing, initialize_cost writes "
    "cost[i, j] to exactly the slot the plan cell (i, j) is read from, initialize_supply places the two marginals at the mirrored node slots; transport_plan switches arc mixing off "
    "(structural). " + PROPS["C07"]["level_text"].replace("Bounded only in this round:", "Bounded:"))
PROPS["C11"]["functions"] = [CU + "em_update_matrix"]
PROPS["C11"]["level_text"] = ("Deductive (unbounded): em_update_matrix is memory safe for any CSR row and any windows/kernels of matching lengths (the searchsorted position is checked "
    "before use; a positive responsibility is only recorded for a context found in the row), writes only posterior_data and returns it. " + PROPS["C11"]["level_text"].replace("Bounded only in this round:", "Bounded:"))
PROPS["C12"]["functions"] += [RD + "numba_multinomial_em_sparse"]
PROPS["C10"]["functions"] += [CU + "em_update_matrix", CU + "sum_coo_entries", NG + "ngrams_of", RD + "numba_multinomial_em_sparse", LOT + "get_transport_plan"] + _DIST + _KL
for _p in ("C06", "C07", "C11", "C17", "C18"):
    PROPS[_p]["explanation"] = PROPS[_p]["level_text"]

import contracts.preprocessing_k as _PK
VK = "vectorizers/_vectorizers.py::"
PROPS["C05"]["functions"] = sorted(_PK.CONTRACTS)
PROPS["C05"]["level_text"] = ("Deductive (unbounded), on mechanically extracted segments of the real prune_token_dictionary: (i) each occurrence bound is converted to exactly "
    "bound/total (capped at 1 for the upper bounds) for every None/given combination, (ii) the four comparisons are strict: a token is pruned iff its frequency is < the lower or > "
    "the upper bound, so over the reals a token occurring exactly the bound is kept, (iii) top-k: every kept frequency is strictly greater than every dropped one and at least one "
    "token is dropped. Not under contract: set / regex / dictionary re-indexing code, document frequencies, float32 rounding at the boundary. " + PROPS["C05"]["level_text"].replace("Bounded only in this round:", "Bounded:"))
PROPS["C20"]["functions"] = [VK + "expand_boundaries", VK + "add_outier_bins", VK + "find_bin_boundaries"]
PROPS["C20"]["level_text"] = ("Deductive (unbounded; pandas intervals modelled as (left, right) records): expand_boundaries and add_outier_bins keep the bins contiguous, leave the "
    "interior break points unchanged and make the outer edges reach the absolute range (at most one extra bin per side); find_bin_boundaries returns strictly increasing break "
    "points starting at the data minimum, every index in range. " + PROPS["C20"]["level_text"].replace("Bounded only in this round:", "Bounded:"))
PROPS["C15"]["functions"] = ["vectorizers/tree_token_cooccurrence.py::build_tree_skip_grams#walks"]
PROPS["C15"]["level_text"] = ("Deductive (unbounded, over an uninterpreted matrix ring): build_tree_skip_grams computes sum_{k=1..radius} weights[k-1] * A^k - weight k-1 is paired "
    "with the k-th power of the adjacency matrix and the loop runs exactly radius times (entry (u,v) of A^k is the number of k-step walks). " + PROPS["C15"]["level_text"].replace("Bounded only:", "Bounded:"))
for _p in ("C05", "C15", "C20"):
    PROPS[_p]["explanation"] = PROPS[_p]["level_text"]
    PROPS[_p]["level_note"] = PROPS[_p]["level_note"].replace("No function of this property is under a machine-checked contract yet", "Only the named helper functions / segments are under contract").replace("no function of this property is under contract", "only build_tree_skip_grams' loop is under contract")

# timestamps must never pass through a format narrower than float64 (C03, precision flow)
PROPS["C03"]["structural"] = [
    st("preprocessing.py", "preprocess_timed_token_sequences", "kwarg", callee="array", keyword="dtype", value="np.float64", arg_contains="token[1]"),
    st("timed_token_cooccurrence_vectorizer.py", "numba_build_skip_grams", "kwarg", callee="array", keyword="dtype", value="np.float64", arg_contains="target_time", missing_ok=True),
    st("timed_token_cooccurrence_vectorizer.py", "numba_em_cooccurrence_iteration", "kwarg", callee="array", keyword="dtype", value="np.float64", arg_contains="target_time", missing_ok=True),
]

PROPS["C09"]["structural"] = [
    st("mixed_gram_vectorizer.py", "BytePairEncodingVectorizer.transform", "same-branch", other="BytePairEncodingVectorizer.fit_transform", test="self.return_type == 'tokens'"),
]

import contracts.glue as _GL
_TK = "vectorizers/token_cooccurrence_vectorizer.py::numba_build_skip_grams"
for _p in ("C04", "C10"):
    PROPS[_p]["functions"] += sorted(_GL.CONTRACTS)
PROPS["C10"]["functions"] += [_TK]   # heavy: verified once, under C10 (the accumulator protocol at the call sites is part of memory safety)

_RX = "vectorizers/preprocessing.py::preprocess_token_sequences#reindex"
for _p in ("C14", "C13", "C01"):
    PROPS[_p]["functions"] += [_RX]
PROPS["C14"]["level_text"] = ("Deductive (unbounded), re-indexing segment of preprocess_token_sequences: with a mask every sequence keeps its length, a removed token becomes the index "
    "m = number of real tokens, the mask is exactly one extra entry with that last index, and the dictionary object passed in is not edited; without a mask sequences only get shorter. " + PROPS["C14"]["level_text"])
PROPS["C14"]["explanation"] = PROPS["C14"]["level_text"]

PROPS["C06"]["structural"] = [st("ngram_vectorizer.py", "NgramVectorizer.__add__", "no-alias-mutation")]

_NGK = "vectorizers/ngram_token_cooccurence_vectorizer.py::numba_build_skip_grams"
PROPS["C10"]["functions"] += [_NGK]
PROPS["C10"]["functions"] += ["vectorizers/mixed_gram_vectorizer.py::pair_length"]   # key safety of the length-table lookups

PROPS["C13"]["structural"] += [
    st("linear_optimal_transport.py", f, "calls", callees=["mkdtemp", "remove", "rmdir"], why="the scratch memmap file and its directory are removed on the success path")
    for f in ("lot_vectors_sparse", "lot_vectors_dense", "lot_vectors_dense_generator", "sinkhorn_vectors_sparse")
] + [st("ngram_vectorizer.py", "NgramVectorizer.__add__", "no-alias-mutation")]

PROPS["C10"]["functions"] += ["vectorizers/timed_token_cooccurrence_vectorizer.py::numba_build_skip_grams"]

for _p in ("C03", "C14", "C10"):
    PROPS[_p]["functions"] += [WK + "variable_window_radii"]

PROPS["C10"]["functions"] += ["vectorizers/multi_token_cooccurence_vectorizer.py::numba_build_multi_skip_grams"]

for _p in ("C06", "C10"):
    PROPS[_p]["functions"] += ["vectorizers/skip_gram_vectorizer.py::build_skip_grams"]

# C01 for the n-gram co-occurrence kernel: an n-gram / token that was not fitted is skipped, never looked up blindly (`key` obligations)
PROPS["C01"]["functions"] += [_NGK]

# C04 at kernel level: the four event kernels carry "what each accumulator stores under a key == the values emitted under that key"
PROPS["C04"]["functions"] += [_TK, _NGK, "vectorizers/timed_token_cooccurrence_vectorizer.py::numba_build_skip_grams",
                              "vectorizers/multi_token_cooccurence_vectorizer.py::numba_build_multi_skip_grams"]

# the EM iteration kernels (one pass over the corpus around em_update_matrix): memory safety + every precondition of em_update_matrix
_EMK = [f + "::numba_em_cooccurrence_iteration" for f in ("vectorizers/token_cooccurrence_vectorizer.py", "vectorizers/ngram_token_cooccurence_vectorizer.py",
                                                          "vectorizers/timed_token_cooccurrence_vectorizer.py")]
_EMK += ["vectorizers/multi_token_cooccurence_vectorizer.py::numba_multi_em_cooccurrence_iteration"]
for _p in ("C10", "C11"):
    PROPS[_p]["functions"] += _EMK

# the multiset kernels (one weight per element of the flattened window): shape, target and offset semantics, non-negativity
for _p in ("C03", "C14", "C10"):
    PROPS[_p]["functions"] += [WK + "multi_flat_kernel", WK + "multi_geometric_kernel"]

for _p in ("C06", "C10"):
    PROPS[_p]["functions"] += ["vectorizers/skip_gram_vectorizer.py::sequence_skip_grams"]
for _p in ("C18", "C10"):
    PROPS[_p]["functions"] += ["vectorizers/distances.py::" + _f for _f in ("sparse_diff", "sparse_total_variation", "sparse_jensen_shannon_divergence", "sparse_symmetric_kl_divergence")]

for _p in ("C17", "C10"):
    PROPS[_p]["functions"] += ["vectorizers/transformers/info_weight.py::column_weights"]

for _p in ("C10", "C12"):
    PROPS[_p]["functions"] += ["vectorizers/linear_optimal_transport.py::l2_normalize"]
for _p in ("C10", "C16"):
    PROPS[_p]["functions"] += ["vectorizers/mixed_gram_vectorizer.py::unicode_to_uint8"]

for _p in ("C13", "C10"):
    PROPS[_p]["functions"] += ["vectorizers/linear_optimal_transport.py::project_to_sphere_tangent_space"]

# C04: the document chunks handed to the worker threads partition the corpus (for every n_threads and every corpus)
PROPS["C04"]["functions"] += ["vectorizers/base_cooccurrence_vectorizer.py::BaseCooccurrenceVectorizer._generate_chunk_boundaries",
                              "vectorizers/multi_token_cooccurence_vectorizer.py::MultiSetCooccurrenceVectorizer._generate_chunk_boundaries#partition"]

# the lemma library (induction proofs of the prefix-sum / keyed-sum lemmas) is part of every check whose contracts invoke a lemma
import contracts as _C
_ALLC, _ = _C.load_all()
for _pid, _P in PROPS.items():
    _fs = list(dict.fromkeys(_P.get("functions", [])))
    if any(any(w in repr({k: v for k, v in _ALLC.get(f, {}).items() if not callable(v)}) for w in ("lemma(", "psum_monotone", "psum_bound", "ksum_")) for f in _fs) and "lemma::ksum" not in _fs:
        _fs.append("lemma::ksum")
    _P["functions"] = _fs

# ---------------------------------------------------------------- level notes / texts brought up to date (what is and is not under contract now)
_NOTES = {
    "C01": "Trusted: pyvc, z3, numpy/scipy. The estimator-level glue (shape= arguments, keep-masks) is decided by structural obligations (shape-pinned) and the bounded driver; "
           "the n-gram co-occurrence kernel is under contract (dictionary lookups guarded), the other estimators' transform paths are bounded.",
    "C03": "Trusted: pyvc, z3, numpy contracts (flipud/arange/mask assignment), floats as reals, pow uninterpreted. The event kernels are under contract for memory safety and for "
           "conservation of what they emit (C04/C10), not for WHICH events they emit: the windowed, kernel-weighted definition itself is decided by the bounded reference.",
    "C05": "The segment contracts are over the reals; the float32 rounding of a bound (seed S-C05-a) is visible to the bounded boundary enumeration only. The set/regex code around the "
           "segments is not under contract.",
    "C06": "ngrams_of (both behaviours), sum_coo_entries and build_skip_grams are under contract; the estimator glue (dictionary building, matrix assembly, `+`) is structural/bounded.",
    "C07": "The optimiser is external (pynndescent.optimal_transport): its network simplex (optimality, feasibility) and allocate_graph_structures are trusted / bounded; the read-out of the plan from the flow vector, and arc_id / initialize_cost / initialize_supply of the installed pynndescent source (read from site-packages on every run), are proved. "
           "Feasibility and optimality are bounded (HiGHS reference).",
    "C11": "em_update_matrix and the four EM iteration kernels around it are under contract (memory safety, support, frame, every call-site precondition); the "
           "normalisation, the epsilon thresholding and the values of the refined matrix are bounded.",
    "C12": "Row-independence of the estimators is bounded; deductive: the row partitions (loops AND their block/chunk counts), LZ / sliding-window / row-denoise kernels' frames.",
    "C13": "Side-effect freedom of the estimators is structural (no-mutator, copy=True, scratch-file removal calls) + bounded snapshots; frames of the helpers are proved "
           "(a frame obligation is generated for every parameter of every function under contract).",
    "C14": "Deductive parts: kernels zero at the mask, radius tables 0 at a nullified mask, window positions, the re-indexing segment. The end-to-end matrix is bounded.",
    "C16": "The LZ parse carries ghost accounting of phrase counts and the cap invariant; counts_to_csr_data keeps the column dictionary numbered 0..size-1 and every emitted "
           "column inside it. The hashed variant and the estimator glue are bounded.",
    "C17": "The exact-prior kernel has a functional contract (result == the KL sum of the definition over a ghost dense column, over the reals, log uninterpreted); the approximate and supervised kernels are under contract for memory safety only; non-negativity (Gibbs' inequality), float rounding, the CSC conversion and the transformer scaling are bounded: no SMT contract decides them.",
    "C20": "pandas interval construction is library code; expand_boundaries / add_outier_bins / find_bin_boundaries are under contract over (left, right) records. "
           "Row totals of the histogram and the KDE clause are bounded.",
}
for _k, _v in _NOTES.items():
    PROPS[_k]["level_note"] = _v
PROPS["C06"]["level_text"] = PROPS["C06"]["level_text"].replace(
    "every slice in range for both behaviours;",
    "ngrams_of('subgrams') returns exactly sum_i min(n, L-i) runs, each a contiguous run of 1..n elements (so a document shorter than n still yields its shorter runs), "
    "every slice in range for both behaviours; build_skip_grams emits in-range (head, tail, weight) records;")
PROPS["C12"]["level_text"] = ("Deductive (unbounded): every block / chunk loop of linear_optimal_transport.py is a partition of [0, n_rows) AND the number of blocks / chunks it runs "
    "over is computed (16 one-statement segments) so that it reaches the last row with at most one trailing empty block; " + PROPS["C12"]["level_text"][len("Deductive (unbounded): "):])
PROPS["C08"]["level_text"] = PROPS["C08"]["level_text"].replace("Verified on mechanically extracted", "The block / chunk counts feeding the loops are verified too (16 one-statement segments). Verified on mechanically extracted")
PROPS["C16"]["level_text"] = PROPS["C16"]["level_text"].replace("never re-numbers an existing column,", "never re-numbers an existing column, keeps the column dictionary numbered 0..size-1 with every emitted index inside it,")
PROPS["C10"]["level_text"] = PROPS["C10"]["level_text"].replace("Trusted:", "Trusted:") + (" The four event kernels (token, n-gram, timed, multiset) are under contract as well: every subscript, "
    "every accumulator precondition at the append sites (two free slots, well-formedness, key >= 0) and the final sort+merge loop.")
for _k in ("C06", "C08", "C10", "C12", "C16"):
    PROPS[_k]["explanation"] = PROPS[_k]["level_text"]
