"""Per-property registry: functions under contract (deductive layer) and bounded driver."""
D = "vectorizers/distances.py::"
M = "vectorizers/mixed_gram_vectorizer.py::"

PROPS = {}
NOT_APPLICABLE = {}

PROPS["C18"] = dict(
    functions=[D + "sparse_sum", D + "sparse_mul", D + "dense_union"],
    bounded=True,
    level="other",
    level_text=("Deductive (all inputs, unbounded): memory safety, termination and index postconditions of sparse_sum / sparse_mul / dense_union "
                "proved by pyvc from the real source. Bounded only: the numeric clauses (finite, symmetric, [0,1], zero on proportional inputs, "
                "triangle inequality, sparse == dense), against float64 reference definitions on an exhaustive small grid plus seeded random cases."),
    level_note=("Trusted: pyvc engine, z3/cvc5, numpy library contracts; arr_union/arr_intersect contracts assumed (run-time checked); "
                "floats as reals; no aliasing between distinct array arguments. Numeric clauses are bounded, not proved."),
    technique="contract-based deductive verification (pyvc VC generation + z3/cvc5) with bounded run-time contract checks for numeric clauses",
    explanation=("Deductive part (pyvc, unbounded): memory safety, termination and the index postconditions of the sparse merge helpers "
                 "(strictly increasing output indices, each a member of the inputs' indices, no stored zeros, equal lengths) are proved for all inputs "
                 "from the real source. Numeric clauses (finiteness, symmetry, range, zero on proportional inputs, triangle inequality, sparse == dense) "
                 "are float facts no SMT contract in reach decides: they are checked by the BOUNDED driver against float64 definitions."),
    assumptions=["contracts of arr_union/arr_intersect/arr_unique assumed (numpy one-liners), checked at run time by the bounded driver"],
)

PROPS["C09"] = dict(
    functions=[M + "contract_pair", M + "contract_and_count_pairs", M + "bpe_encode", M + "count_pairs"],
    bounded=True,
    level="proof",
    level_text=("Proof (all inputs, unbounded) for the kernels that make the encoding lossless: contract_pair and contract_and_count_pairs satisfy a "
                "witness postcondition (ghost array src: every output code is either the input code at src[j] or new_code standing for the pair at "
                "src[j], src[j]+1; src[0]=0, src[len(out)]=len(in); greedy left-to-right, non-overlapping), are memory safe and never read an unbound "
                "variable; bpe_encode replays the merge list with these kernels. Lemma (stated, standard): the witness implies expand(out)==in. "
                "The training loop bpe_train (tie-breaking, pruning, budget) and the tokens/matrix outputs are NOT under contract: they are "
                "covered by the bounded driver (exhaustive small corpora over {a,b})."),
    level_note=("Trusted: pyvc engine, z3; integers mathematical (numba uint32 locals ignored); bpe_train, pruning_max_freq_pair and the estimator "
                "glue are outside the deductive part (bounded only)."),
    technique="contract-based deductive verification (pyvc: witness postcondition via ghost state, loop invariants, z3) + exhaustive bounded run-time checks",
    explanation="see level_text",
    assumptions=["witness => lossless decoding is a stated lemma (induction over the output), not machine-checked"],
)

SW = "vectorizers/transformers/sliding_windows.py::"
WK = "vectorizers/_window_kernels.py::"
PROPS["C19"] = dict(
    functions=[SW + "sliding_windows", WK + "difference_kernel"],
    bounded=True,
    level="other",
    level_text=("Deductive (all inputs, unbounded, integer arithmetic): sliding_windows returns exactly ceil((L' - width + 1)/stride) rows "
                "(as q*stride >= a > (q-1)*stride), every window slice and every sampled index is in range (so nothing outside the padded "
                "sequence is read), the padding copy is in range, the sample is applied on every path; difference_kernel has one row per valid "
                "difference and writes in range. Bounded: the interpretation of window_sample in SlidingWindowTransformer.fit (isinstance / "
                "np.issubdtype dispatch is outside the verifier's subset), kernels and multivariate input, against sliding_window_view-style "
                "reference on an exhaustive small scope."),
    level_note="Trusted: pyvc, z3 (nonlinear integer goals), numpy slicing contracts; the kernel parameter is assumed pure with the declared output size; multivariate case bounded only.",
    technique="contract-based deductive verification (pyvc VCs over integers, z3) + exhaustive bounded comparison with a reference",
    explanation="see level_text",
)

CU = "vectorizers/coo_utils.py::"
_KERNELS = [WK + k for k in ("window_at_index", "flat_kernel", "harmonic_kernel", "geometric_kernel", "update_kernel", "timed_flat_kernel",
                              "timed_geometric_kernel", "fixed_window_radii")]
_COO = [CU + k for k in ("coo_append", "coo_sum_duplicates", "merge_sum_duplicates", "merge_all_sum_duplicates", "coo_increase_mem")]
_TECH = "contract-based deductive verification (pyvc VC generation, z3/cvc5) with bounded run-time reference checks for the clauses no contract decides"

PROPS["C03"] = dict(
    functions=_KERNELS,
    bounded=True,
    level="other",
    level_text=("Deductive (unbounded): window_at_index returns exactly the in-sequence elements at distance 1..radius in order of increasing distance "
                "(both orientations; it reads one sequence only, so windows cannot cross a boundary); each kernel returns one weight per context, zero "
                "before the offset and at masked contexts and the base weight (1, 1/(j+1)) elsewhere; fixed radii table = radius everywhere, 0 at the "
                "mask. Bounded: the assembled matrix (event emission in numba_build_skip_grams, block offsets, column naming, window normalisation, "
                "timestamps) against an independent float64 reference of the definition on enumerated small corpora x a 2880-configuration grid (sampled)."),
    level_note="Trusted: pyvc, z3, numpy contracts (flipud/arange/mask assignment), floats as reals, pow uninterpreted. The event-emission kernels are not yet under contract.",
    technique=_TECH, explanation="see level_text",
)
PROPS["C04"] = dict(
    functions=_COO,
    bounded=True,
    level="other",
    level_text=("Deductive (unbounded, for every buffer size N >= 2 and every value of COO_QUICKSORT_LIMIT >= 1, the constant is symbolic): the accumulator's "
                "representation invariant WF is preserved by coo_append / coo_sum_duplicates / merge_sum_duplicates / merge_all_sum_duplicates / "
                "coo_increase_mem, every subscript and slice assignment is in range, two free slots remain after every append (so the next append "
                "cannot overflow), growth keeps the shared fill index. ASSUMED: the run stack does not fill up (see assumptions). Bounded: conservation of "
                "events (no event lost/duplicated/moved) over accumulator histories with tiny N and LIMIT, and API-level independence of n_threads / "
                "coo_initial_memory / volume for the four vectorizers."),
    level_note=("Trusted: pyvc, z3, numpy contracts (argsort is a sorting permutation, slice assignment, round). Assumption: depth[0] stays below "
                "len(min) (true at the real LIMIT unless > LIMIT*N^2 events; false for artificially small LIMIT, observed)."),
    technique=_TECH, explanation="see level_text",
    assumptions=["run-stack depth assumption (contracts/coo_utils.py ROOM)"],
)


def reg(pid, functions, level, text, note, assumptions=()):
    PROPS[pid] = dict(functions=functions, bounded=True, level=level, level_text=text, level_note=note, technique=_TECH, explanation=text, assumptions=list(assumptions))


reg("C01", [M + "counts_to_csr_data", M + "lempel_ziv_based_encode"], "other",
    "Deductive (unbounded): counts_to_csr_data emits exactly one (column, count) pair per phrase of the row and only ever adds columns (memory/key safety); "
    "the LZ parse loop keeps start <= end. Bounded: every row-producing estimator of the catalogue (27 configurations + co-occurrence family, EdgeList, tree) is "
    "fitted and then transformed on unseen tokens/characters/labels, empty items and items longer/shorter than training: row count, fitted width, per-item order, "
    "dictionaries unchanged.",
    "Trusted: pyvc, z3, numpy/scipy. The estimator-level glue (shape= arguments, keep-masks) is checked by the bounded driver only in this round.")
reg("C02", [M + "contract_pair", M + "contract_and_count_pairs", M + "bpe_encode"], "other",
    "Deductive (unbounded): the two BPE contraction kernels satisfy the same deterministic witness specification (greedy left-to-right, non-overlapping), which is the "
    "kernel-level reason why replaying the merge list in transform reproduces the encodings of fit_transform. Bounded: fit returns the estimator and "
    "fit_transform(X) == fit(X).transform(X) for the whole catalogue plus parameter grids (co-occurrence: orientation/kernel/window function/mask/n_iter/epsilon/threads; "
    "Wasserstein: metric x input_method x memory_size x method; BPE: vocab x return_type; Ngram: n/mask/dictionary).",
    "Trusted: pyvc, z3; numeric equality of SVD-compressed outputs is a bounded float comparison (1e-6).")
reg("C05", [], "other",
    "Bounded only in this round: the kept vocabulary is compared with an independent reference of the constraint semantics on seeded corpora x 17 constraint "
    "combinations (with shuffled documents/tokens for order independence), and the 'count equal to the bound is kept' case is enumerated exhaustively for all "
    "(count, total) pairs up to the stated bound through the real preprocess_token_sequences.",
    "No function of this property is under a machine-checked contract yet (set/regex/np.where code is outside the current pyvc subset); everything reported is bounded.")
reg("C06", ["vectorizers/coo_utils.py::sum_coo_entries"] if False else [], "other",
    "Bounded only in this round: NgramVectorizer / SkipgramVectorizer / EdgeListVectorizer matrices against pure-python counts on seeded small corpora "
    "(fit_transform and transform on unseen data), and '+' of two unigram models against a model fitted on the concatenated corpora.",
    "No function of this property is under a machine-checked contract yet; everything reported is bounded.")
