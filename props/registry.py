"""Per-property registry: functions under contract (deductive layer) and bounded driver."""
D = "vectorizers/distances.py::"
M = "vectorizers/mixed_gram_vectorizer.py::"

PROPS = {}
NOT_APPLICABLE = {}

PROPS["C18"] = dict(
    functions=[D + "sparse_sum", D + "sparse_mul", D + "dense_union"],
    bounded=True,
    level="other",
    level_text=("Deductive (all inputs, unbounded): memory safety, termination and index postconditions of sparse_sum / sparse_mul / dense_union "
                "proved by pyvc from the real source. Bounded only: the numeric clauses (finite, symmetric, [0,1], zero on proportional inputs, "
                "triangle inequality, sparse == dense), against float64 reference definitions on an exhaustive small grid plus seeded random cases."),
    level_note=("Trusted: pyvc engine, z3/cvc5, numpy library contracts; arr_union/arr_intersect contracts assumed (run-time checked); "
                "floats as reals; no aliasing between distinct array arguments. Numeric clauses are bounded, not proved."),
    technique="contract-based deductive verification (pyvc VC generation + z3/cvc5) with bounded run-time contract checks for numeric clauses",
    explanation=("Deductive part (pyvc, unbounded): memory safety, termination and the index postconditions of the sparse merge helpers "
                 "(strictly increasing output indices, each a member of the inputs' indices, no stored zeros, equal lengths) are proved for all inputs "
                 "from the real source. Numeric clauses (finiteness, symmetry, range, zero on proportional inputs, triangle inequality, sparse == dense) "
                 "are float facts no SMT contract in reach decides: they are checked by the BOUNDED driver against float64 definitions."),
    assumptions=["contracts of arr_union/arr_intersect/arr_unique assumed (numpy one-liners), checked at run time by the bounded driver"],
)
