"""Independent reference definitions of the co-occurrence matrices (float64, dense, pure python/numpy).

Written from the property statements C03 / C11 / C14; shares no code with the repository."""
import math

import numpy as np


# ---------------------------------------------------------------- vocabulary (no code shared with preprocessing.py)
def vocabulary(token_lists, min_occurrences=None, max_occurrences=None, excluded=(), mask=None):
    counts = {}
    for seq in token_lists:
        for t in seq:
            counts[t] = counts.get(t, 0) + 1
    kept = sorted(t for t, c in counts.items()
                  if (min_occurrences is None or c >= min_occurrences) and (max_occurrences is None or c <= max_occurrences) and t not in excluded and t != mask)
    d = {t: i for i, t in enumerate(kept)}
    total = sum(counts.values())
    freq = np.array([counts[t] / total for t in kept], dtype=np.float64)
    return d, freq


def reindex(seq, d, mask):
    """Delete removed tokens (mask None) or replace them in place by the mask index len(d)."""
    if mask is None:
        return [d[t] for t in seq if t in d]
    return [d[t] if t in d else len(d) for t in seq]


# ---------------------------------------------------------------- radii and kernels
def radii_table(kind, radius, freq, mask_index, power=0.75):
    n = len(freq)
    if kind == "fixed":
        r = np.full(n + 1, radius, dtype=np.int64)
    else:
        rr = np.power(freq.astype(np.float64), power - 1)
        rr = rr / np.sum(rr * freq)
        rr = np.append(rr, rr.min())
        if mask_index is not None:
            rr[mask_index] = 0.0
        res = rr * radius
        res[(res > 0) & (res < 1)] = 1.0
        r = np.round(res).astype(np.int64)
    if mask_index is not None:
        r[mask_index] = 0
    return r


def radius_tie(kind, radius, freq, mask_index, power=0.75, tol=1e-4):
    """True if a variable radius of this table sits (numerically) on a rounding boundary - x.5, or the 0/1 clamp at 1.0: then
    the integer radius depends on the floating-point precision used, and the definition does not pin it down."""
    if kind == "fixed" or len(freq) == 0:
        return False
    rr = np.power(freq.astype(np.float64), power - 1)
    rr = rr / np.sum(rr * freq)
    rr = np.append(rr, rr.min())
    if mask_index is not None:
        rr[mask_index] = 0.0
    res = rr * radius
    frac = np.abs(res - np.floor(res) - 0.5)
    return bool(np.any((frac < tol) & (res > 0)) or np.any(np.abs(res - 1.0) < tol))


def kernel_weights(kind, contexts, mask_index, normalize, offset, power=0.9, deltas=None, delta=1.0):
    w = []
    for j, c in enumerate(contexts):
        if j < offset or (mask_index is not None and c == mask_index):
            w.append(0.0)
        elif kind == "flat":
            w.append(1.0)
        elif kind == "harmonic":
            w.append(1.0 / (j + 1))
        elif kind == "geometric":
            w.append(power ** (j + 1) if deltas is None else power ** (deltas[j] / delta))
        else:
            raise ValueError(kind)
    w = np.array(w, dtype=np.float64)
    if normalize and w.sum() > 0:
        w = w / w.sum()
    return w


def expand_orientations(orientations, radii, mix, window_functions, kernel_functions, kernel_args, window_args):
    """'directional' contributes (before, after) in that order with the same settings."""
    blocks = []
    for i, o in enumerate(orientations):
        base = dict(radius=radii[i], mix=mix[i], wfun=window_functions[i], kfun=kernel_functions[i], kargs=kernel_args[i], wargs=window_args[i], decl=i)
        if o == "directional":
            blocks.append(dict(base, reverse=True, name="pre"))
            blocks.append(dict(base, reverse=False, name="post"))
        elif o == "before":
            blocks.append(dict(base, reverse=True, name="pre"))
        else:
            blocks.append(dict(base, reverse=False, name="post"))
    return blocks


def window(seq, pos, radius, reverse):
    """positions of the contexts, ordered by increasing distance, clipped to this sequence."""
    if reverse:
        return [p for p in range(pos - 1, max(pos - radius, 0) - 1, -1)]
    return [p for p in range(pos + 1, min(pos + radius, len(seq) - 1) + 1)]


def token_cooccurrence(seqs, n_vocab, freq, blocks, normalize_windows, mask_index, times=None, delta=1.0):
    """seqs: lists of token indices (mask = n_vocab - 1 when masking is on).  Returns dense (n_vocab, n_vocab*len(blocks))."""
    M = np.zeros((n_vocab, n_vocab * len(blocks)), dtype=np.float64)
    tables = [radii_table(b["wfun"], b["radius"], freq, mask_index, **b["wargs"]) for b in blocks]
    for si, seq in enumerate(seqs):
        for pos, tok in enumerate(seq):
            ws, ks = [], []
            for bi, b in enumerate(blocks):
                r = int(tables[bi][tok])
                ps = window(seq, pos, r, b["reverse"])
                ctx = [seq[p] for p in ps]
                ka = dict(b["kargs"])
                dl = None
                if times is not None:
                    dl = [abs(times[si][p] - times[si][pos]) for p in ps]
                k = b["mix"] * kernel_weights(b["kfun"], ctx, mask_index, ka.get("normalize", False), ka.get("offset", 0), ka.get("power", 0.9), dl, ka.get("delta", delta))
                ws.append(ctx)
                ks.append(k)
            total = sum(k.sum() for k in ks) if normalize_windows else 0
            if total <= 0:
                total = 1
            for bi, (ctx, k) in enumerate(zip(ws, ks)):
                for c, kv in zip(ctx, k):
                    v = np.float32(kv / total)
                    if v > 0:
                        M[tok, c + bi * n_vocab] += float(v)
    return M


# ---------------------------------------------------------------- EM refinement (C11)
def l1_columns(M):
    s = M.sum(axis=0)
    out = M.copy()
    nz = s > 0
    out[:, nz] = out[:, nz] / s[nz]
    return out


THRESHOLD_TIES = []   # appended to when an entry sits (numerically) on the threshold: float precision decides such a cell


def threshold(M, eps):
    out = M.copy()
    if eps > 0 and np.any(np.abs(out - eps) < 1e-6):
        THRESHOLD_TIES.append(1)
    out[out < eps] = 0
    return out


def em_iteration(M, seqs, n_vocab, freq, blocks, mask_index, times=None, delta=1.0):
    """Every occurrence distributes one unit over (its row, context column) cells in proportion to kernel x current value."""
    P = np.zeros_like(M)
    tables = [radii_table(b["wfun"], b["radius"], freq, mask_index, **b["wargs"]) for b in blocks]
    for si, seq in enumerate(seqs):
        for pos, tok in enumerate(seq):
            cells, vals = [], []
            for bi, b in enumerate(blocks):
                ps = window(seq, pos, int(tables[bi][tok]), b["reverse"])
                ctx = [seq[p] for p in ps]
                ka = dict(b["kargs"])
                dl = [abs(times[si][p] - times[si][pos]) for p in ps] if times is not None else None
                # the EM step uses the un-offset kernel restricted by mask/normalize (update_kernel of the stored kernel)
                k = b["mix"] * kernel_weights(b["kfun"], ctx, mask_index, ka.get("normalize", False), ka.get("offset", 0), ka.get("power", 0.9), dl, ka.get("delta", delta))
                for c, kv in zip(ctx, k):
                    if kv > 0:
                        cells.append((tok, c + bi * n_vocab))
                        vals.append(kv * M[tok, c + bi * n_vocab])
            z = sum(vals)
            if z > 0:
                for cell, v in zip(cells, vals):
                    if v / z > 0:
                        P[cell] += v / z
    return P


def em_refine(M0, seqs, n_vocab, freq, blocks, mask_index, n_iter, eps, times=None, delta=1.0):
    if n_iter == 0 and eps == 0:
        return M0
    M = threshold(l1_columns(M0), eps)
    for _ in range(n_iter):
        M = threshold(l1_columns(em_iteration(M, seqs, n_vocab, freq, blocks, mask_index, times, delta)), eps)
    return M


# ---------------------------------------------------------------- multiset variant (a document is a list of multisets of tokens)
def multiset_kernel_weights(kind, msets, target_pos, mask_index, normalize, offset, power=0.9):
    """One weight per element of the flattened window (msets[0] is the target's own multiset): the multiset at distance j carries the
    base weight of distance j (flat: 1, geometric: power**j), the first `offset` multisets carry 0 (as the first `offset` contexts do for
    the sequence kernels), the target's own occurrence and masked tokens carry 0."""
    w = []
    for j, m in enumerate(msets):
        base = 1.0 if kind == "flat" else power ** j
        for q, tok in enumerate(m):
            if j < offset or (j == 0 and q == target_pos) or (mask_index is not None and tok == mask_index):
                w.append(0.0)
            else:
                w.append(base)
    w = np.array(w, dtype=np.float64)
    if normalize and w.sum() > 0:
        w = w / w.sum()
    return w


def multiset_cooccurrence(docs, n_vocab, blocks, normalize_windows, mask_index=None):
    """docs: list of documents, each a list of multisets (lists of token indices).  Fixed radii only."""
    M = np.zeros((n_vocab, n_vocab * len(blocks)), dtype=np.float64)
    for D in docs:
        for d, mset in enumerate(D):
            for pos, tok in enumerate(mset):
                ws, ks = [], []
                for b in blocks:
                    r = int(b["radius"])
                    msets = D[d: d + r + 1] if not b["reverse"] else list(reversed(D[max(0, d - r): d + 1]))
                    ka = dict(b["kargs"])
                    k = b["mix"] * multiset_kernel_weights(b["kfun"], msets, pos, mask_index, ka.get("normalize", False), ka.get("offset", 0), ka.get("power", 0.9))
                    ws.append([t for m in msets for t in m])
                    ks.append(k)
                total = sum(float(k.sum()) for k in ks) if normalize_windows else 0.0
                if total <= 0:
                    total = 1.0
                for bi, (ctx, k) in enumerate(zip(ws, ks)):
                    for c, wt in zip(ctx, k):
                        if wt > 0:
                            M[tok, c + bi * n_vocab] += wt / total
    return M
