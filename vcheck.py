"""Driver of the per-property checks (runs under python3-vt).

  ./check <ID> [--tier quick|thorough]
  ./check replay <replay file>

Exit codes: 0 property held on everything explored (known findings are printed) / 1 violation /
2 undecided (solver unknown) / 3 checker error.  See DESIGN.md section 2.9."""
import hashlib
import json
import multiprocessing as mp
import os
import subprocess
import sys
import time

ROOT = os.path.dirname(os.path.abspath(__file__))
sys.path.insert(0, ROOT)
VENV_PY = "/venv/bin/python"
REPO = os.environ.get("VERIF_REPO", "/repo")

EXTRACTION_LOSSES = [
    "decorators dropped (@numba.njit and its options nogil/parallel/fastmath/cache/inline/locals typing): source semantics verified, not LLVM output",
    "machine integers treated as mathematical integers (no overflow); floats as reals (rounding ignored) unless stated",
    "numba.prange read as range",
    "docstrings/comments/type hints ignored",
    "distinct array parameters assumed not to alias unless the contract declares an alias case",
    "termination proved only where a `decreases` clause is given",
]


def _verify_one(job):
    qn, variant, timeout_ms = job
    from pyvc.core import Verifier
    import contracts as C
    contracts, macros = C.load_all()
    v = Verifier(contracts, macros, timeout_ms)
    try:
        return v.verify(qn, variant)
    except Exception as e:  # checker crash: never a verdict
        import traceback
        return dict(function=qn, variant=variant, error="checker crash: %s\n%s" % (e, traceback.format_exc()[-1500:]),
                    obligations=[], canaries=[], trusted=[], inlined=[], used_contracts=[], loops_cut=[], paths=0, wall_s=0)


def run_deductive(functions, tier):
    import contracts as C
    contracts, macros = C.load_all()
    timeout_ms = 20000 if tier == "quick" else 120000
    jobs = []
    for qn in functions:
        if qn not in contracts:
            raise SystemExit("checker error: no contract for %s" % qn)
        for variant in (contracts[qn].get("variants") or [None]):
            jobs.append((qn, variant, timeout_ms))
    if not jobs:
        return []
    # one process per function; a hard wall-clock limit per function (a stuck solver must not hang the check: it becomes a
    # checker error / undecided, never a verdict)
    # (solver budgets are deterministic resource limits, so the work per function is bounded whatever the load; the wall-clock
    # limit is generous on purpose: a loaded machine must not turn into a verdict).  One fresh process per function: the z3
    # context of a function's queries does not depend on which functions the worker verified before.
    limit = 3600 if tier == "quick" else 6 * 3600
    pool = mp.Pool(min(16, len(jobs)), maxtasksperchild=1)
    try:
        asyncs = [(job, pool.apply_async(_verify_one, (job,))) for job in jobs]
        out = []
        t_end = time.time() + limit
        for job, a in asyncs:
            try:
                out.append(a.get(timeout=max(1.0, t_end - time.time())))
            except mp.TimeoutError:
                out.append(dict(function=job[0], variant=job[1], error="checker timeout: verification of this function exceeded %d s" % limit,
                                obligations=[], canaries=[], trusted=[], inlined=[], used_contracts=[], loops_cut=[], paths=0, wall_s=limit))
        return out
    finally:
        pool.terminate()


def run_bounded(pid, tier, seed):
    out = os.path.join(ROOT, "evidence", ".bounded_%s.json" % pid)
    env = dict(os.environ, NUMBA_DISABLE_JIT=os.environ.get("VERIF_JIT_OFF", "1"), PYTHONWARNINGS="ignore", VERIF_REPO=REPO)
    cmd = [VENV_PY, "-W", "ignore", "-m", "bounded.driver", pid, "--tier", tier, "--seed", str(seed), "--out", out]
    p = subprocess.run(cmd, cwd=ROOT, env=env, capture_output=True, text=True)
    if p.returncode != 0 or not os.path.exists(out):
        return dict(error="bounded driver failed (rc %d): %s" % (p.returncode, (p.stderr or p.stdout)[-2000:]))
    r = json.load(open(out))
    os.unlink(out)
    return r


def replay_search(qn, model, seed, n):
    env = dict(os.environ, NUMBA_DISABLE_JIT="1", PYTHONWARNINGS="ignore", VERIF_REPO=REPO)
    p = subprocess.run([VENV_PY, "-W", "ignore", "-m", "bounded.replay", "search", qn, "-", "--n", str(n), "--seed", str(seed)],
                       cwd=ROOT, env=env, input=json.dumps(model), capture_output=True, text=True)
    try:
        return json.loads(p.stdout.strip().splitlines()[-1])
    except Exception:
        return None


def engine_crosscheck(functions, seed, n):
    """Run-time evaluation of the same contract text on the real functions (bounded/replay.py crosscheck)."""
    fs = [f for f in functions if "#" not in f]
    if not fs:
        return []
    env = dict(os.environ, NUMBA_DISABLE_JIT="1", PYTHONWARNINGS="ignore", VERIF_REPO=REPO)
    p = subprocess.run([VENV_PY, "-W", "ignore", "-m", "bounded.replay", "crosscheck"] + fs + ["--n", str(n), "--seed", str(seed)],
                       cwd=ROOT, env=env, capture_output=True, text=True)
    try:
        return json.loads(p.stdout.strip().splitlines()[-1])
    except Exception:
        return [dict(function="*", status="error", why=(p.stderr or p.stdout)[-300:])]


def load_known():
    p = os.path.join(ROOT, "known_findings.json")
    if not os.path.exists(p):
        return dict(findings=[], fixed=[])
    return json.load(open(p))


def load_baseline():
    p = os.path.join(ROOT, "baseline", "obligations.json")
    if not os.path.exists(p):
        return {}
    return json.load(open(p))


def record_baseline():
    """Record the keys of all obligations discharged on the current tree (run on the unchanged tree only; committed)."""
    from props.registry import PROPS
    funcs = sorted({f for P in PROPS.values() for f in P.get("functions", [])})
    res = run_deductive(funcs, "quick")
    from pyvc import structural
    for P in PROPS.values():
        res += structural.run_all(P.get("structural", []))
    out = {}
    bad = 0
    for r in res:
        if r["error"]:
            print("error:", r["function"], r["error"])
            bad += 1
        for o in r["obligations"]:
            if o["verdict"] == "unsat":
                out[obligation_key(o)] = dict(function=o["func"], kind=o["kind"], note=o["note"][:200])
            else:
                print("not discharged:", o["name"], o["verdict"])
                bad += 1
    os.makedirs(os.path.join(ROOT, "baseline"), exist_ok=True)
    json.dump(out, open(os.path.join(ROOT, "baseline", "obligations.json"), "w"), indent=0, sort_keys=True)
    print("baseline: %d obligation keys from %d functions (%d problems)" % (len(out), len(funcs), bad))
    return 0 if bad == 0 else 3


def known_match(known, pid, sig):
    """sig: dict(function=..., kind=..., key=...) for deductive, dict(case=...) for bounded failures."""
    for f in known.get("findings", []):
        if f.get("property") != pid:
            continue
        m = f.get("match", {})
        if all(str(sig.get(k)) == str(v) for k, v in m.items()):
            return f
    return None


def obligation_key(o):
    """Stable identity of an obligation across line shifts: function, kind and the note text."""
    return hashlib.sha1(("%s|%s|%s" % (o["func"], o["kind"], o["note"].split(" [solver")[0])).encode()).hexdigest()[:10]


def write_replay(pid, payload):
    d = os.path.join(ROOT, "evidence", "replays")
    os.makedirs(d, exist_ok=True)
    h = hashlib.sha1(json.dumps(payload, sort_keys=True, default=str).encode()).hexdigest()[:10]
    path = os.path.join(d, "%s-%s.json" % (pid, h))
    with open(path, "w") as f:
        json.dump(payload, f, indent=1, default=str)
    return os.path.relpath(path, ROOT)


def check_property(pid, tier):
    from props.registry import PROPS
    t0 = time.time()
    seed = int(os.environ.get("VERIF_SEED", "0"))
    if pid not in PROPS:
        print("checker error: property %s has no registered check" % pid)
        return 3
    P = PROPS[pid]
    known = load_known()
    baseline = load_baseline()
    violations, undecided, errors, known_hits = [], [], [], []
    fail_count, more_failed = {}, []

    # ---------------- deductive layer
    results = run_deductive(P.get("functions", []), tier)
    if P.get("structural"):
        from pyvc import structural
        results += structural.run_all(P["structural"])
    n_obl = n_dis = 0
    backends, solver_ms = {}, 0.0
    samples, trusted, funcs_uc, dead = [], set(), [], []
    for r in results:
        if r["error"]:
            if any(o["verdict"] == "sat" for o in r["obligations"]):
                # the executor stopped after a refuted obligation (e.g. a certainly-unbound read): the refutation is the verdict
                pass
            else:
                errors.append("%s: %s" % (r["function"], r["error"]))
                continue
        funcs_uc.append(dict(function=r["function"], variant=r["variant"], lines=r.get("lines"), source_sha=r.get("source_sha"),
                             obligations=len(r["obligations"]), loops_cut=r["loops_cut"], paths=r["paths"], wall_s=r["wall_s"],
                             callees_by_contract=r["used_contracts"], callees_inlined=r["inlined"],
                             solver_rlimit_units=(r.get("solver") or {}).get("rlimit_last"), solver_checks=(r.get("solver") or {}).get("checks")))
        trusted.update(r["trusted"])
        if not r["obligations"] and not r["error"]:
            errors.append("%s: zero obligations generated (vacuous)" % r["function"])
        for cn in r["canaries"]:
            if not cn["reachable"]:
                dead.append("%s: %s (line %s) unreachable under the contract -> vacuous" % (r["function"], cn["what"], cn["line"]))
        for o in r["obligations"]:
            n_obl += 1
            solver_ms += o["ms"]
            backends[o["backend"]] = backends.get(o["backend"], 0) + 1
            if o["verdict"] == "unsat":
                n_dis += 1
                if len(samples) < 6 and o["kind"] in ("post", "inv-pres", "index", "pre"):
                    samples.append(dict(obligation=o["name"], what=o["note"][:160], verdict="discharged", backend=o["backend"], ms=round(o["ms"], 1)))
            elif o["verdict"] == "sat":
                sig = dict(function=o["func"], kind=o["kind"], key=obligation_key(o))
                kf = known_match(known, pid, sig)
                fail_count[o["func"]] = fail_count.get(o["func"], 0) + 1
                if fail_count[o["func"]] > 3 and not kf:
                    more_failed.append(o["name"])
                    continue
                case = replay_search(o["func"], o["model"], seed, 1500 if tier == "quick" else 20000)
                payload = dict(property=pid, obligation=o["name"], kind=o["kind"], note=o["note"], key=sig["key"],
                               solver=dict(verdict="sat", backend=o["backend"], counter_model=o["model"], path=o["trace"]), case=case)
                if kf:
                    known_hits.append((kf, o["name"]))
                else:
                    violations.append((write_replay(pid, payload), o["name"], case is not None))
            else:
                key = obligation_key(o)
                if "wall-clock safety net" in o["note"]:
                    # the machine, not the code: never a verdict
                    undecided.append(o["name"] + " :: solver interrupted by the wall-clock safety net :: " + o["note"][:100])
                    continue
                fail_count[o["func"]] = fail_count.get(o["func"], 0) + 1
                if key in baseline and fail_count[o["func"]] > 3:
                    more_failed.append(o["name"])
                    continue
                if key in baseline:
                    # an obligation that is discharged on the unchanged tree and no longer is: reported as a violation with the
                    # solver's reason; a failing input is searched on the real code, else "no-failing-input-found"
                    sig = dict(function=o["func"], kind=o["kind"], key=key)
                    kf = known_match(known, pid, sig)
                    case = replay_search(o["func"], None, seed, 1500 if tier == "quick" else 20000)
                    payload = dict(property=pid, obligation=o["name"], kind=o["kind"], note=o["note"], key=key,
                                   solver=dict(verdict="unknown (was discharged on the recorded baseline)", backend=o["backend"], path=o["trace"]), case=case)
                    if kf:
                        known_hits.append((kf, o["name"]))
                    else:
                        violations.append((write_replay(pid, payload), o["name"], case is not None))
                else:
                    undecided.append(o["name"] + " :: " + o["note"][:120])
    errors += dead

    # ---------------- engine cross-check: the same contract text evaluated at run time on the real functions
    xc_fns = {r["function"] for r in results if not (r.get("variant") or {}).get("structural")}
    xc_fns |= {c for r in results for c in r.get("used_contracts", []) if not c.startswith("external::")}   # assumed / callee contracts too
    xc = engine_crosscheck(sorted(xc_fns), seed, 200 if tier == "quick" else 3000)
    failed_fns = {o["func"] for r in results for o in r["obligations"] if o["verdict"] != "unsat"}
    for x in xc:
        if x["status"] == "failed" and x["function"] not in failed_fns:
            errors.append("engine cross-check: %s is proved but its contract fails at run time on %s -> engine or trusted library contract unsound" % (
                x["function"], json.dumps(x["failure"])[:300]))
        if x["status"] == "error":
            errors.append("engine cross-check could not run: %s" % x.get("why"))

    # ---------------- bounded layer
    bounded = None
    if P.get("bounded"):
        bounded = run_bounded(pid, tier, seed)
        if bounded.get("error"):
            errors.append(bounded["error"])
        else:
            seen_ids = set()
            for f in bounded.get("failures", []):
                if f.get("id") in seen_ids:
                    continue  # one report per failure class; the first failing input is the replay
                seen_ids.add(f.get("id"))
                sig = dict(case=f.get("id"))
                kf = known_match(known, pid, sig)
                if kf:
                    known_hits.append((kf, f.get("id")))
                else:
                    payload = dict(property=pid, obligation="bounded:" + str(f.get("id")), kind="bounded", note=f.get("what"), case=None, bounded_case=f)
                    violations.append((write_replay(pid, payload), "bounded:" + str(f.get("id")), True))

    # ---------------- evidence
    level = P["level"]
    if level == "proof" and (n_obl == 0):
        errors.append("no obligations for a proof-level claim")
    cov = dict(
        obligations=n_obl, discharged=n_dis,
        checker_cmd="./check %s --tier %s  (pyvc: python3-vt, z3 5.1.0 API; fall-backs /usr/bin/cvc5 1.0.3, /usr/bin/z3 4.8.12)" % (pid, tier),
        trusted_base=sorted(trusted) + ["pyvc engine (home-made VC generator; cross-checked by replay on CPython and by seeded mutants)", "z3 / cvc5", "CPython ast"],
        backends=backends, solver_s=round(solver_ms / 1000.0, 2),
        functions_under_contract=funcs_uc,
        extraction_drops=EXTRACTION_LOSSES,
        samples=samples,
        explanation=P["explanation"],
        undecided=undecided, checker_errors=errors, further_failed_obligations=more_failed,
        engine_crosscheck=[dict(function=x["function"], status=x["status"], cases=x.get("satisfying_precondition"), why=x.get("why"),
                                clauses_not_evaluated_at_run_time=x.get("clauses_not_evaluated_at_run_time") or []) for x in xc],
        known_findings_reported=[k[0].get("what") for k in known_hits],
    )
    if bounded and not bounded.get("error"):
        cov["bounded"] = {k: v for k, v in bounded.items() if k != "failures"}
        cov["bounded"]["label"] = "BOUNDED stand-in: run-time contract / reference check on the real code; never counted as proved"
        cov["evaluations"] = bounded.get("evaluations", 0)
        cov["distinct_nontrivial"] = bounded.get("distinct_nontrivial", 0)
        cov["rule"] = bounded.get("rule", "")
        cov["exhaustive"] = bool(bounded.get("exhaustive", False))
        cov["samples"] = samples + [dict(bounded_case=s) for s in bounded.get("samples", [])[:6]]
    ev = dict(property_id=pid, tier=tier, seed=seed, level=level, coverage=cov,
              assumptions=sorted(set(P.get("assumptions", [])) | trusted) + EXTRACTION_LOSSES,
              wall_s=round(time.time() - t0, 2), violations=len(violations))
    os.makedirs(os.path.join(ROOT, "evidence"), exist_ok=True)
    with open(os.path.join(ROOT, "evidence", "%s.json" % pid), "w") as f:
        json.dump(ev, f, indent=1, default=str)

    # ---------------- verdict
    seen = set()
    for kf, what in known_hits:
        k = kf.get("what")
        if k not in seen:
            seen.add(k)
            print("KNOWN-FINDING: property=%s %s" % (pid, k))
    print("%s [%s]: %d obligations, %d discharged, %d functions under contract; bounded: %s; %.1fs" % (
        pid, tier, n_obl, n_dis, len(funcs_uc), (bounded or {}).get("evaluations", "-"), time.time() - t0))
    if violations:
        per_fn = {}
        shown = []
        for v in violations:
            fn = v[1].split("/")[0]
            per_fn[fn] = per_fn.get(fn, 0) + 1
            if per_fn[fn] <= 3:
                shown.append(v)
        for path, name, has_input in shown:
            print("VIOLATION property=%s replay=%s%s" % (pid, path, "" if has_input else " no-failing-input-found"))
            print("  failed obligation: %s" % name)
        return 1
    if errors:
        for e in errors:
            print("CHECKER-ERROR: %s" % e)
        return 3
    if undecided:
        for u in undecided:
            print("UNDECIDED obligation=%s" % u)
        return 2
    return 0


def replay(path):
    rp = json.load(open(path if os.path.isabs(path) else os.path.join(ROOT, path)))
    print("replay of %s: obligation %s" % (path, rp.get("obligation")))
    if rp.get("kind") == "bounded":
        env = dict(os.environ, NUMBA_DISABLE_JIT="1", PYTHONWARNINGS="ignore", VERIF_REPO=REPO)
        p = subprocess.run([VENV_PY, "-W", "ignore", "-m", "bounded.driver", rp["property"], "--replay", os.path.abspath(os.path.join(ROOT, path))], cwd=ROOT, env=env)
        return p.returncode
    env = dict(os.environ, NUMBA_DISABLE_JIT="1", PYTHONWARNINGS="ignore", VERIF_REPO=REPO)
    p = subprocess.run([VENV_PY, "-W", "ignore", "-m", "bounded.replay", "run", os.path.abspath(os.path.join(ROOT, path))], cwd=ROOT, env=env)
    return p.returncode


def main(argv):
    if not argv:
        print(__doc__)
        return 3
    if argv[0] == "replay":
        return replay(argv[1])
    if argv[0] == "--record-baseline":
        return record_baseline()
    tier = os.environ.get("VERIF_TIER", "quick")
    if "--tier" in argv:
        tier = argv[argv.index("--tier") + 1]
    return check_property(argv[0], tier)


if __name__ == "__main__":
    sys.exit(main(sys.argv[1:]))
